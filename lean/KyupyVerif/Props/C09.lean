import KyupyVerif.Proofs.CircObjHistory
import KyupyVerif.Proofs.CircObjInv
import KyupyVerif.Proofs.CircObjStats
import KyupyVerif.Proofs.CircObjSubst
import KyupyVerif.Proofs.CircObjSubstStatic
import KyupyVerif.Proofs.CircObjSubstFull
import KyupyVerif.Proofs.CircObjHistoryStatic
/-! # C09 — circuit graph stays consistent under every edit history

Object of the theorems: the hand-written object-level model `KV.CircObj` (Model/CircObj.lean) of `kyupy/circuit.py`:
`GrowingList` (`growSet`, `freeIndex`), `IndexList.__delitem__` (`idxDel`: move the last element into the hole and rewrite
its `index`), `Node.__init__/remove`, `Line.__init__/remove` (implicit and explicit pins, fork output squeeze with
`driver_pin` renumbering), `io_nodes.append`, `get_or_add_fork`, `eliminate_1to1_forks`, `copy`, `__getstate__` /
`__setstate__`, `stats`.  Python object identity is modelled by explicit ids into two heaps; removed objects stay in the heap.

`WFc c` (Model/CircObj.lean) is the invariant of DESIGN.md C09: node/line indices equal list positions (hence no
duplicates), `cells`/`forks` are dictionaries that map exactly the names of the nodes of that class to them, each line's
driver and reader are nodes of the circuit whose recorded pins hold that line, every non-`None` pin entry is a line of
the circuit that records exactly that node and pin (so a line is referenced from those two places and from nowhere else),
fork outputs contain no `None`, ports are nodes of the circuit (plus model bookkeeping: ids are allocated, objects alive).

* **Theorem** (kernel-checked, this file): every operation preserves `WFc` under its decidable well-formed-use
  precondition (`addNode_wf`, `addLine_wf`, `removeLine_wf`, `removeNode_wf`, `ioAppend_wf`, `getOrAddFork_wf`, `elim_wf`,
  `copy_wf`, `pickle_wf`, uniformly `step_wf`); every history from the empty circuit does (`history_wf`); the heart:
  swap-with-last deletion keeps "index = position" (`indexList_delete`); `copy` computes exactly the pickle round trip
  (`copy_eq_pickle`); the Boolean checker decides the invariant (`invOK_iff`); statistics: under `WFc` the dictionaries are
  permutations of the node list split by class, so sizes and every count taken over `cells.values()` equal the counts over
  the node list (`cells_perm`, `forks_perm`, `stats_sizes`, `stats_kind_count`), and the literal `defaultdict` computation
  of `stats` returns base value + those counts for every key (`stats_value`, `stats_seq`).
  `substitute`, `remove_dangling_nodes`, `resolve_tlib_cells` are modelled at object level too (Model/CircObjSub.lean:
  `substituteObj`, `removeDanglingObj`, `resolveObj`, statement by statement over the same primitives `addNode`, `addLine`
  with explicit pins, `removeLine`, `removeNode`; node-keyed sets and dictionaries compare by `Node.__eq__`; `none` where
  Python raises).  Inside these operations `WFc` does not hold (lines keep a stale end while the node's pin lists are
  already cleared or the node is already removed): the proofs go through the weaker invariant `SInv`
  (Proofs/CircObjSInv.lean) with the pending line ends as parameters.  Proved:
  - `removeDangling_wf`: any node of any well-formed circuit, no further hypothesis;
  - `substitute_wf0_static`: well-formed host AND implementation + the structural precondition `substStatic` (the node is
    a cell and stays one / is not a port when it gets removed, no line from the node to itself, port list of the
    implementation without duplicates, designated cell not a port — which since the repair of D32 holds by itself unless a
    port of the implementation is a flip-flop/latch, `designated_not_port`) ⇒ the result satisfies `WFc0` = everything of `WFc`
    except gap-freeness of fork outputs — all arities, unconnected and ignored pins, ports read internally, state elements,
    removal of dangling logic included; via `substStatic_pre0` (structure ⇒ the run-time pin guards `substGuards`:
    `node_map` is injective, every occupied pin of an image stems from a copied implementation line or an instance pin);
  - `substitute_wf_static` / `substStatic_pre`: the same hypotheses give `WFc` of the result (and `substStatic` implies the
    run-time precondition `substPre`): forks of the host stay gap-free (only `Line.remove` of an ignored input touches them),
    copied forks are made dense again by the loop after the connecting loops (`densify`; an unconnected output pin of the
    instance would otherwise leave a gap — the repair of D30), the removal of the dangling logic keeps all forks gap-free;
    nothing is evaluated along the run;
  - `substitute_wf0` / `substitute_wf`: the same conclusions from the decidable run-time preconditions `substPre0` /
    `substPre` (kinds, no self loop, pin guards, `forksFull` of the result) with NO hypothesis on the implementation;
  - `resolve_wf` (`resolvePre`), `resolve_wf_static` (`resolveStatic`), uniformly `step2_wf`, and `history_wf2` /
    `history_wf2_prefix` for histories over all twelve operations.  NOTE (audit 2, F8): `pre2` of `substitute` / `resolve`
    is `substPre` / `resolvePre`, which contain `forksFull` of the RESULT (a conjunct of the conclusion) and the pin guards
    evaluated along the run — for these two operations `history_wf2` proves only the remaining clauses of `WFc` (`WFc0`);
  - `history_wf2_static` (+ `history_static_is_history`): the same for histories replayed under the STRUCTURAL
    preconditions `pre2s` (Proofs/CircObjHistoryStatic.lean: `substStatic` for `substitute`, `resolveStatic` for
    `resolve_tlib_cells`, `pre` / index-in-range for the rest): nothing about the result of a substitution is assumed.
    (`resolveStatic` still checks `substStatic` on the circuit as it is when each substitution of the loop starts.)
* **Correspondence** (harness/c09.py, differential, not proof): the model against the real `kyupy.circuit` API on random
  edit histories — canonical dump after EVERY step (node kinds, names, pin lists as line indices, line ends, `io_nodes`,
  `cells`/`forks` in dictionary order, `stats`) must be equal, `pre` must accept every generated operation, and `invOK` of
  the model state is reported.
  The three operations of Model/CircObjSub.lean are part of the random histories (and run on the hosts × implementations
  of the C10 generators and with the built-in library objects): same dump after the call, `none` exactly when the real code
  raises; the value of `substPre` / `resolvePre` is reported per call, and where it is true `invOK` must be true.
* **Oracle** (harness/c09.py): `WFc` stated directly over the Python objects (identity, not `Node.__eq__`) after every
  step (also after `substitute` / `resolve_tlib_cells` / `remove_dangling_nodes`); this, not the model, decides violations.
  D30 (fixed): `substitute` with an open output pin left a `None` gap in a copied fork (`exGap` below is that use).
* Outside the theorems: what Python does outside well-formed use (explicit pin on an occupied position, removing a node
  that still has lines or is a port, `eliminate_1to1_forks` on a 1:1 fork without / with several input lines,
  `substitute` of a cell with a line from its own output to its own input) — probed by the harness and recorded as notes.
  D32 (fixed): `substitute` with a feed-through implementation (an output port driven through forks only by an input port)
  used to make a PORT the designated cell and corrupt the graph; since the repair such an implementation has no designated
  cell, the model follows (`implShape`), the use is inside `substStatic` (`designated_not_port`, `exFeed`) and is part of the
  fixed histories of the harness (`FEEDTHROUGH_WITNESS`). -/
namespace KV.C09
open KV.CircObj

/-! ## the heart: `IndexList.__delitem__` -/
/-- Deleting position `k` of an `IndexList` whose elements carry their own position (`idx l[p] = p`): after moving the
last element into the hole and rewriting its `index` to `k`, again every element carries its position; the members are
exactly the old ones without `l[k]`; the length drops by one. -/
theorem indexList_delete (l : List Nat) (idx : Nat → Nat) (hidx : ∀ p (h : p < l.length), idx l[p] = p)
    (k : Nat) (hk : k < l.length) :
    (∀ p (h : p < (idxDel l k).1.length),
        (if (idxDel l k).2 = some (idxDel l k).1[p] then k else idx (idxDel l k).1[p]) = p) ∧
    (∀ j, j ∈ (idxDel l k).1 ↔ j ∈ l ∧ j ≠ l[k]) ∧
    (idxDel l k).1.length = l.length - 1 :=
  ⟨(idxDel_spec l idx hidx k hk).1, (idxDel_spec l idx hidx k hk).2.1, idxDel_length l k hk⟩

example : idxDel [10, 11, 12, 13] 1 = ([10, 13, 12], some 13) ∧ idxDel [10, 11, 12, 13] 3 = ([10, 11, 12], none) := by
  decide

/-! ## single operations -/
theorem empty_wf : WFc empty := KV.CircObj.empty_wf

/-- `Node(c, name, kind)` under the constructor's own assertion (name not yet used in that class) -/
theorem addNode_wf {c : Circ} {name kind : String} (wf : WFc c) (h : nameFree c name kind = true) :
    WFc (addNode c name kind) := KV.CircObj.addNode_wf wf h

/-- `Line(c, driver, reader)` with implicit pins (`none`: `free_index`) or explicit pins (`some p`); well-formed use:
both nodes belong to the circuit, an explicit pin is a free position, and on a fork output it is exactly `len(outs)` -/
theorem addLine_wf {c : Circ} {d r : Nat} {dp rp : Option Nat} (wf : WFc c) (hd : d ∈ c.nodes) (hr : r ∈ c.nodes)
    (hdp : outPinOK (c.nobj d) dp = true) (hrp : inPinOK (c.nobj r) rp = true) : WFc (addLine c d dp r rp) := by
  refine KV.CircObj.addLine_wf wf hd hr ?_ ?_ ?_
  · cases dp with
    | none => exact pin_freeIndex _
    | some p =>
      simp only [outPinOK, Bool.and_eq_true, Option.isNone_iff_eq_none] at hdp
      exact hdp.1
  · cases rp with
    | none => exact pin_freeIndex _
    | some p =>
      simp only [inPinOK, Option.isNone_iff_eq_none] at hrp
      exact hrp
  · intro hk
    cases dp with
    | none => exact freeIndex_full (wf.forkFull d hd hk)
    | some p =>
      simp only [outPinOK, Bool.and_eq_true, Bool.or_eq_true, bne_iff_ne, beq_iff_eq] at hdp
      rcases hdp.2 with h | h
      · exact absurd hk h
      · exact h

/-- `line.remove()` for any line of the circuit: both pins are `None`-ed, fork outputs are squeezed and renumbered,
the line list is repaired by swap-with-last -/
theorem removeLine_wf {c : Circ} {l : Nat} (wf : WFc c) (hl : l ∈ c.lines) : WFc (removeLine c l) :=
  KV.CircObj.removeLine_wf wf hl

/-- `node.remove()` for a node of the circuit without lines that is not a port -/
theorem removeNode_wf {c : Circ} {i : Nat} (wf : WFc c) (hi : i ∈ c.nodes)
    (hins : (c.nobj i).ins.all (·.isNone) = true) (houts : (c.nobj i).outs.all (·.isNone) = true)
    (hio : c.io.contains i = false) : WFc (removeNode c i) :=
  KV.CircObj.removeNode_wf wf hi (all_isNone_pin hins) (all_isNone_pin houts) (by simpa using hio)

theorem ioAppend_wf {c : Circ} {i : Nat} (wf : WFc c) (hi : i ∈ c.nodes) : WFc (ioAppend c i) :=
  KV.CircObj.ioAppend_wf wf hi

theorem getOrAddFork_wf {c : Circ} (wf : WFc c) (name : String) : WFc (getOrAddFork c name) :=
  KV.CircObj.getOrAddFork_wf wf name

/-- `eliminate_1to1_forks()`; well-formed use (`elimPre`): every non-port fork with exactly one output has exactly one
input line, at pin 0. (The loop over the snapshot `list(self.forks.values())` is handled by a loop invariant; a 1:1 fork
that is a self loop is covered.) -/
theorem elim_wf {c : Circ} (wf : WFc c) (h : elimPre c = true) : WFc (elim c) := KV.CircObj.elim_wf wf h

/-- `pickle.loads(pickle.dumps(c))` = `__setstate__(__getstate__())`: no precondition beyond `WFc` -/
theorem pickle_wf {c : Circ} (wf : WFc c) : WFc (pickle c) := KV.CircObj.pickle_wf wf

/-- on a well-formed circuit `copy()` (name look-ups) builds exactly what the pickle round trip (index look-ups) builds -/
theorem copy_eq_pickle {c : Circ} (wf : WFc c) : copy c = pickle c := KV.CircObj.copy_eq_pickle wf

theorem copy_wf {c : Circ} (wf : WFc c) : WFc (copy c) := KV.CircObj.copy_wf wf

/-- `__setstate__` builds a well-formed circuit from every well-formed state, and `__getstate__` delivers one -/
theorem setState_wf {s : State} (ok : StateOK s) : WFc (setState s) := KV.CircObj.setState_wf ok
theorem getState_ok {c : Circ} (wf : WFc c) : StateOK (getState c) := KV.CircObj.getState_ok wf

/-! ## histories -/
/-- every operation, operands chosen by current index, preserves `WFc` under its decidable precondition `pre` -/
theorem step_wf {c : Circ} (wf : WFc c) (op : Op) (h : pre c op = true) : WFc (step c op) := KV.CircObj.step_wf wf op h

/-- every finite history of well-formed uses that starts from the empty circuit ends in a well-formed circuit -/
theorem history_wf (ops : List Op) (c : Circ) (h : run empty ops = some c) : WFc c :=
  run_wf ops empty c KV.CircObj.empty_wf h

/-- ... and so does every prefix: the invariant holds after EVERY step of the history -/
theorem history_wf_prefix (ops rest : List Op) (c : Circ) (h : run empty (ops ++ rest) = some c) :
    ∃ c', run empty ops = some c' ∧ WFc c' := by
  have key : ∀ (ops : List Op) (c0 : Circ), run c0 (ops ++ rest) = some c → ∃ c', run c0 ops = some c' := by
    intro ops
    induction ops with
    | nil => intro c0 _; exact ⟨c0, rfl⟩
    | cons op ops ih =>
      intro c0 h
      simp only [List.cons_append, run] at h ⊢
      split at h
      · rename_i hp; simp only [hp, if_true]; exact ih _ h
      · cases h
  obtain ⟨c', hc'⟩ := key ops empty h
  exact ⟨c', hc', history_wf ops c' hc'⟩

/-- the Boolean checker evaluated by the driver decides the invariant -/
theorem invOK_iff (c : Circ) : invOK c = true ↔ WFc c := KV.CircObj.invOK_iff c

/-! ### the preconditions are satisfiable: a history that uses every operation (fork with three outputs, removal of
the middle one, explicit pins that grow the pin list, node removal after its lines, 1:1 fork elimination, copy, pickle) -/
def exHistory : List Op :=
  [.addNode "a" "input", .addNode "a" FORK, .addLine 0 none 1 none, .addNode "g" "AND2",
   .addLine 1 none 2 (some 1), .addLine 1 none 2 (some 0), .addNode "b" FORK, .addLine 1 (some 2) 3 (some 3),
   .removeLine 1, .removeLine 0, .ioAppend 0, .addNode "o" "output", .addLine 2 (some 4) 4 (some 2), .removeLine 1,
   .removeNode 3, .copy, .pickle, .getFork "a", .getFork "n", .addLine 0 none 1 none, .addLine 2 none 4 none,
   .addLine 4 none 3 none, .elim]

example : (run empty exHistory).isSome = true := by decide +kernel
example : ((run empty exHistory).map fun c => (c.nodes.length, c.lines.length, invOK c)) = some (3, 3, true) := by
  decide +kernel
/-- an ill-formed use is rejected by `pre`: explicit pin on an occupied position, node removal before its lines -/
example : (run empty [.addNode "a" "AND2", .addNode "b" FORK, .addLine 1 none 0 (some 0), .addLine 1 none 0 (some 0)]).isSome = false := by
  decide +kernel
example : (run empty [.addNode "a" "AND2", .addNode "b" FORK, .addLine 1 none 0 (some 0), .removeNode 0]).isSome = false := by
  decide +kernel

/-! ## `substitute`, `remove_dangling_nodes`, `resolve_tlib_cells` (object-level model: Model/CircObjSub.lean) -/
/-- `c.remove_dangling_nodes(root)` for ANY node of a well-formed circuit: the recursion over the drivers (depth first;
nodes met again after their removal; ports, state elements and nodes with an output line stay) ends in a well-formed
circuit.  (`none` = the model's fuel is exhausted / the real code raises, which does not happen from `WFc`.) -/
theorem removeDangling_wf {c c' : Circ} {root : Nat} (wf : WFc c) (hroot : root ∈ c.nodes)
    (h : removeDanglingObj c root = some c') : WFc c' := KV.CircObj.removeDanglingObj_wf wf hroot h

/-- `c.substitute(node, impl)` keeps everything of `WFc` except possibly gap-freeness of fork outputs (`WFc0`) under the
decidable precondition `substPre0`: the node is a cell of the circuit and stays a cell (the designated cell of the
implementation is not a fork; without a designated cell the node is removed and must not be a port), no line runs from
the node to itself, and no explicit pin assignment of `substitute` hits a pin that holds a line (`substGuards`,
evaluated along the run; `substStatic_pre0` derives it from structural conditions). No hypothesis on `impl`. -/
theorem substitute_wf0 {c c' : Circ} {i : Nat} {impl : Circ} (wf : WFc c) (hpre : substPre0 c i impl = true)
    (h : substituteObj c i impl = some c') : WFc0 c' := KV.CircObj.substituteObj_wf0 wf.toWFc0 hpre h

/-- the run-time pin guards follow from structure: on a well-formed host, `substStatic` (the node is a cell and stays
one / is not a port when it gets removed, no self loop, the implementation is a well-formed circuit whose port list has no
duplicates and whose designated cell is not a port) implies `substPre0`.  Nothing is evaluated along the run. -/
theorem substStatic_pre0 {c : Circ} {i : Nat} {impl : Circ} (wf : WFc c) (hst : substStatic c i impl = true) :
    substPre0 c i impl = true := KV.CircObj.substPre0_of_static wf.toWFc0 hst

/-- hence: `substitute` on well-formed host and implementation under the structural precondition keeps everything of
`WFc` except possibly gap-freeness of fork outputs — for every arity, unconnected pins, ignored inputs, outputs read
internally, removal of dangling logic included -/
theorem substitute_wf0_static {c c' : Circ} {i : Nat} {impl : Circ} (wf : WFc c) (hst : substStatic c i impl = true)
    (h : substituteObj c i impl = some c') : WFc0 c' := substitute_wf0 wf (substStatic_pre0 wf hst) h

/-- ... and `WFc` when in addition the fork outputs of the result are gap-free (`substPre` = `substPre0` + `forksFull` of
the result; without hypotheses on the implementation a fork of the implementation with a gap is copied with it) -/
theorem substitute_wf {c c' : Circ} {i : Nat} {impl : Circ} (wf : WFc c) (hpre : substPre c i impl = true)
    (h : substituteObj c i impl = some c') : WFc c' := KV.CircObj.substituteObj_wf wf hpre h

/-- structural precondition only: well-formed host and implementation + `substStatic` give `WFc` of the result.  Instance
pins may be unconnected, inputs may be ignored by the implementation, ports may be read internally, the implementation may
contain forks and state elements, dangling logic behind open outputs is removed; nothing is evaluated along the run. -/
theorem substitute_wf_static {c c' : Circ} {i : Nat} {impl : Circ} (wf : WFc c) (hst : substStatic c i impl = true)
    (h : substituteObj c i impl = some c') : WFc c' := KV.CircObj.substituteObj_wf_static wf hst h

/-- ... in other words the structural condition implies the run-time precondition `substPre` -/
theorem substStatic_pre {c : Circ} {i : Nat} {impl : Circ} (wf : WFc c) (hst : substStatic c i impl = true) :
    substPre c i impl = true := KV.CircObj.substPre_of_static wf hst

/-- since the repair of D32 (when the walk from the first output of the implementation ends at one of its PORTS — a
feed-through cell `input A -> fork -> output X` — the implementation has no designated cell) the clause "the designated cell
is not a port" of `substStatic` (`desNotPort`) holds by itself for every implementation none of whose ports is a
flip-flop/latch: feed-through implementations are inside the structural theorems (`exFeed` below) -/
theorem designated_not_port {impl : Circ} (h : (impl.io.all fun p => !(isSeqKind (impl.nobj p).kind)) = true) :
    desNotPort impl = true := KV.CircObj.desNotPort_of_portsNotSeq h

/-- `c.resolve_tlib_cells(tlib)`: the loop over the snapshot `list(self.nodes)`; `resolvePre` = every substitution it
performs is a well-formed use -/
theorem resolve_wf {lib : Lib} {c c' : Circ} (wf : WFc c) (hpre : resolvePre lib c = true) (h : resolveObj lib c = some c') :
    WFc c' := KV.CircObj.resolveObj_wf wf hpre h

/-- `resolve_tlib_cells` when every substitution it performs satisfies the structural precondition (`resolveStatic`:
`substStatic` on the circuit as it is when that substitution starts) -/
theorem resolve_wf_static {lib : Lib} {c c' : Circ} (wf : WFc c) (hst : resolveStatic lib c = true)
    (h : resolveObj lib c = some c') : WFc c' := resolve_wf wf (KV.CircObj.resolvePre_of_static wf hst) h

/-- every operation of the extended repertoire preserves `WFc` under its decidable precondition `pre2` -/
theorem step2_wf {c c' : Circ} (wf : WFc c) (op : Op2) (hpre : pre2 c op = true) (h : step2 c op = some c') : WFc c' :=
  KV.CircObj.step2_wf wf op hpre h

/-- every finite history of well-formed uses of ALL modelled operations (the nine of `Op`, `substitute`,
`remove_dangling_nodes`, `resolve_tlib_cells`) that starts from the empty circuit ends in a well-formed circuit -/
theorem history_wf2 (ops : List Op2) (c : Circ) (h : run2 empty ops = some c) : WFc c :=
  run2_wf ops empty c KV.CircObj.empty_wf h

/-- ... and so does every prefix -/
theorem history_wf2_prefix (ops rest : List Op2) (c : Circ) (h : run2 empty (ops ++ rest) = some c) :
    ∃ c', run2 empty ops = some c' ∧ WFc c' := by
  have key : ∀ (ops : List Op2) (c0 : Circ), run2 c0 (ops ++ rest) = some c → ∃ c', run2 c0 ops = some c' := by
    intro ops
    induction ops with
    | nil => intro c0 _; exact ⟨c0, rfl⟩
    | cons op ops ih =>
      intro c0 h
      simp only [List.cons_append, run2] at h ⊢
      split at h
      · rename_i hp
        simp only [hp, if_true]
        cases hs : step2 c0 op with
        | none => simp [hs] at h
        | some c1 => simp only [hs] at h ⊢; exact ih _ h
      · cases h
  obtain ⟨c', hc'⟩ := key ops empty h
  exact ⟨c', hc', history_wf2 ops c' hc'⟩

/-- every finite history of STRUCTURAL well-formed uses (`pre2s`: `substStatic` for `substitute`, `resolveStatic` for
`resolve_tlib_cells` — no clause about the result of a substitution, no guard evaluated inside one) that starts from the
empty circuit ends in a well-formed circuit.  Non-circular form of `history_wf2` (audit 2, F8). -/
theorem history_wf2_static (ops : List Op2) (c : Circ) (h : run2s empty ops = some c) : WFc c :=
  run2s_wf ops empty c KV.CircObj.empty_wf h

/-- ... and it is a history of `history_wf2` with the same result: `pre2s` implies `pre2` along the whole run -/
theorem history_static_is_history (ops : List Op2) (c : Circ) (h : run2s empty ops = some c) : run2 empty ops = some c :=
  run2_of_run2s ops empty c KV.CircObj.empty_wf h

/-! ### the preconditions are satisfiable: a half adder instance is substituted by an implementation with a port read
internally (a fork is made for it), an input with two readers (a fork is made) and one with a single reader; then an
instance of a library cell is added and resolved, and a dangling gate is removed together with the logic behind it -/
/-- X = AND2(A, B), Y = OR2(A, X); ports A, B, X, Y are forks (as `TechLib` builds them) -/
def exImpl : Circ := setState
  { nodes := [("A", FORK), ("B", FORK), ("X", "AND2"), ("X", FORK), ("Y", "OR2"), ("Y", FORK)],
    lines := [(0, 0, 2, 0), (1, 0, 2, 1), (2, 0, 3, 0), (0, 1, 4, 0), (3, 0, 4, 1), (4, 0, 5, 0)],
    io := [0, 1, 3, 5] }
/-- Z = INV1(A) -/
def exImpl2 : Circ := setState
  { nodes := [("A", FORK), ("Z", "INV1"), ("Z", FORK)], lines := [(0, 0, 1, 0), (1, 0, 2, 0)], io := [0, 2] }

def exHistory2 : List Op2 :=
  [.base (.addNode "a" "input"), .base (.addNode "b" "input"), .base (.addNode "u" "HA"), .base (.addNode "ox" "output"),
   .base (.addNode "oy" "output"), .base (.addLine 0 none 2 (some 0)), .base (.addLine 1 none 2 (some 1)),
   .base (.addLine 2 (some 0) 3 none), .base (.addLine 2 (some 1) 4 none), .base (.ioAppend 0), .base (.ioAppend 1),
   .base (.ioAppend 3), .base (.ioAppend 4), .substitute 2 exImpl,
   .base (.addNode "v" "INVX"), .base (.addNode "w" FORK), .base (.addLine 6 none 8 (some 0)), .base (.addLine 8 (some 0) 9 none),
   .base (.addNode "g" "BUF1"), .base (.addLine 9 none 10 none), .resolve [("INVX", exImpl2)], .removeDangling 10, .base .copy]

/-- after `substitute`: 8 nodes, 8 lines; after `resolve`: 11 nodes, 11 lines; `remove_dangling_nodes` takes away the
gate, the fork and the resolved cell behind it -/
example : ((run2 empty (exHistory2.take 14)).map fun c => (c.nodes.length, c.lines.length, invOK c)) = some (8, 8, true) := by
  decide +kernel
example : ((run2 empty (exHistory2.take 21)).map fun c => (c.nodes.length, c.lines.length, invOK c)) = some (11, 11, true) := by
  decide +kernel
example : ((run2 empty exHistory2).map fun c => (c.nodes.length, c.lines.length, invOK c)) = some (8, 8, true) := by
  decide +kernel
/-- the whole history (a `substitute`, a `resolve`, a `remove_dangling_nodes`, a `copy`) is a history of STRUCTURAL
well-formed uses: hypothesis of `history_wf2_static` -/
example : ((run2s empty exHistory2).map fun c => (c.nodes.length, c.lines.length)) = some (8, 8) := by decide +kernel
/-- the structural preconditions hold for the substitution and for the resolution in this history -/
example : ((run2 empty (exHistory2.take 13)).map fun c => substStatic c 2 exImpl) = some true := by decide +kernel
example : ((run2 empty (exHistory2.take 20)).map fun c => resolveStatic [("INVX", exImpl2)] c) = some true := by decide +kernel

/-- D30: an open output pin whose implementation line leaves a fork at a pin below another kept output of that fork (fork
`F` drives the output port `O1` at pin 0 and a gate at pin 1; the instance pin of `O1` is open).  The structural precondition
holds; the copied fork is made dense again (`F.outs = [line]`, its `driver_pin` renumbered to 0): 4 nodes, 3 lines, `WFc`. -/
def exGap : Circ := setState
  { nodes := [("A", "input"), ("F", FORK), ("X", "INV1"), ("O1", "output"), ("O2", "output")],
    lines := [(0, 0, 1, 0), (1, 0, 3, 0), (1, 1, 2, 0), (2, 0, 4, 0)], io := [0, 4, 3] }
def exHistoryGap : List Op2 :=
  [.base (.addNode "a" "input"), .base (.addNode "u" "CELLX1"), .base (.addNode "o" "output"),
   .base (.addLine 0 none 1 none), .base (.addLine 1 (some 0) 2 none), .base (.ioAppend 0), .base (.ioAppend 2)]
example : ((run2 empty exHistoryGap).map fun c => (substStatic c 1 exGap, substPre c 1 exGap)) = some (true, true) := by
  decide +kernel
example : ((run2 empty (exHistoryGap ++ [.substitute 1 exGap])).map fun c =>
    (c.nodes.length, c.lines.length, invOK c, c.nodes.map fun j => (c.nobj j).outs.length)) = some (4, 3, true, [1, 1, 0, 1]) := by
  decide +kernel

/-- D32 (fixed): the feed-through implementation `input A -> fork a -> output X`.  The walk for the designated cell ends at
the port `A`, so there is none: the instance is removed, the fork `u~a` takes its place between the instance's lines — the
structural precondition holds and the result (3 nodes, 2 lines) is well-formed.  (Before the repair the port became the
designated cell and the graph was corrupted.) -/
def exFeed : Circ := setState
  { nodes := [("A", "input"), ("a", FORK), ("X", "output")], lines := [(0, 0, 1, 0), (1, 0, 2, 0)], io := [0, 2] }
example : (implShape exFeed).map (·.des) = some none ∧
    ((run2 empty exHistoryGap).map fun c => (substStatic c 1 exFeed, substPre c 1 exFeed)) = some (true, true) := by
  decide +kernel
example : ((run2 empty (exHistoryGap ++ [.substitute 1 exFeed])).map fun c =>
    (c.nodes.length, c.lines.length, invOK c, c.nodes.map fun j => (c.nobj j).kind)) =
      some (3, 2, true, ["input", "output", FORK]) := by
  decide +kernel

/-- an open output pin with dangling logic behind it: the half adder of `exHistory2` with its second output open — the OR
gate behind it is removed together with its two input lines (two fork squeezes): 6 nodes, 5 lines -/
def exHistoryOpen : List Op2 :=
  [.base (.addNode "a" "input"), .base (.addNode "b" "input"), .base (.addNode "u" "HA"), .base (.addNode "ox" "output"),
   .base (.addLine 0 none 2 (some 0)), .base (.addLine 1 none 2 (some 1)), .base (.addLine 2 (some 0) 3 none),
   .base (.ioAppend 0), .base (.ioAppend 1), .base (.ioAppend 3)]
example : ((run2 empty exHistoryOpen).map fun c => substStatic c 2 exImpl) = some true := by decide +kernel
example : ((run2 empty (exHistoryOpen ++ [.substitute 2 exImpl])).map fun c => (c.nodes.length, c.lines.length, invOK c)) =
    some (6, 5, true) := by decide +kernel

/-! ## statistics -/
/-- `cells.values()` is a permutation of the non-fork nodes, `forks.values()` of the fork nodes -/
theorem cells_perm {c : Circ} (wf : WFc c) :
    (c.cells.map (·.2)).Perm (c.nodes.filter fun i => (c.nobj i).kind != FORK) := KV.CircObj.cells_perm wf
theorem forks_perm {c : Circ} (wf : WFc c) :
    (c.forks.map (·.2)).Perm (c.nodes.filter fun i => (c.nobj i).kind == FORK) := KV.CircObj.forks_perm wf

/-- `stats['__cell__']`, `stats['__fork__']` (the dictionary sizes) are the numbers of nodes of each class and add up to
`stats['__node__']` -/
theorem stats_sizes {c : Circ} (wf : WFc c) :
    c.cells.length = c.nodes.countP (fun i => (c.nobj i).kind != FORK) ∧
    c.forks.length = c.nodes.countP (fun i => (c.nobj i).kind == FORK) ∧
    c.cells.length + c.forks.length = c.nodes.length := KV.CircObj.stats_sizes wf

/-- every count that `stats` takes over `cells.values()` equals the count over the non-fork nodes of the node list -/
theorem stats_kind_count {c : Circ} (wf : WFc c) (p : String → Bool) :
    c.cells.countP (fun e => p (c.nobj e.2).kind) =
    c.nodes.countP (fun i => (c.nobj i).kind != FORK && p (c.nobj i).kind) := KV.CircObj.stats_kind_count wf p

/-- the literal `defaultdict` computation: the value reported under any key other than `__seq__` is the base value
(container size for the five size keys) plus the number of cells counted under that key (own kind, `__dff__`,
`__latch__`, `__comb__` classification), counted over the NODE LIST -/
theorem stats_value {c : Circ} (wf : WFc c) (k : String) (hk : k ≠ "__seq__") :
    statVal (stats c) k = statBase c k + c.nodes.countP (fun i => (c.nobj i).kind != FORK && countsFor k (c.nobj i).kind) +
      c.nodes.countP (fun i => (c.nobj i).kind != FORK && classFor k (c.nobj i).kind) :=
  KV.CircObj.stats_value wf k hk

/-- `stats['__seq__'] = stats['__dff__'] + stats['__latch__']` -/
theorem stats_seq (c : Circ) :
    statVal (stats c) "__seq__" = statVal (stats c) "__dff__" + statVal (stats c) "__latch__" := KV.CircObj.stats_seq c

end KV.C09
