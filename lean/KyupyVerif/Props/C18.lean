import KyupyVerif.Proofs.Stil
import KyupyVerif.Proofs.StilText
import KyupyVerif.Proofs.StilExtract
import KyupyVerif.Proofs.MvChk
import KyupyVerif.Gen.MvTables
import KyupyVerif.Proofs.StilSim
import KyupyVerif.Drv.StilSim
/-! # C18 — STIL patterns map scan data onto flip-flops by chain order and inversion

Object: the hand-written model `KV.Stil` (Model/Stil.lean) of `stil.py` after parsing, in property mode
(`Mode.spec`: interface = `Circuit.s_nodes`, whole inversion vector).  A chain is `[si] ++ mid ++ [so]`; a cell
`x` of it is given by a decomposition `mid = pre ++ x :: post` (`x` not a marker): `(cellsOf post).length` is its
position counted from scan-out, `markers pre` / `markers post` the number of "!" between scan-in / scan-out and it.

**Name → row (audit finding 2, fix D36).**  Interface names need not be unique (bench-style `OUTPUT(q1) q1 = DFF(g)`: port fork
and flip-flop are both `q1`).  The theorems speak about `Circ.cellRow x` (row of a scan cell: looked up among the state elements
first) and `Circ.portRow x` (row of a `_pi`/`_po` member: among the ports first) — the REPAIRED `_maps` (`LookMode.role`);
`rows_by_role`: a cell that is a state element gets a state row with its name, a member that is a port a port row, whatever else
carries the name; `rows_unique_names`: with pairwise different names both are `s_nodes.idxOf x` (the earlier formulation);
`name_clash_as_found`: the code as found (`LookMode.last`, one dictionary, last position) on the auditor's witness.  The harness probes
nothing here: the model in property mode is compared with the code under test, and a difference that the as-found look-up
(`sfl`) reproduces is the oracle's violation class `name-clash` (fixed finding D36); the generator makes scan-out ports and plain
outputs of bench-style circuits the output fork of a flip-flop (tags `name-clash:*`).
**Hypotheses.**  `hnd` (the target rows of one call are pairwise different) is evaluated by the driver (`stil hnd`) on every case's
real parse result (tags `hyp:hnd:*`, together with "interface names pairwise different"); a well-formed generated case outside it
is a broken tie.  `hports : fl.portsOK = true` (audit 2, A-C18-1; decidable: the scan-in port names of the chains are pairwise different, and so
are the scan-out port names): the model walks the chain LIST, stil.py walks dictionaries keyed by port (`si_ports`, `scan_maps[chain[0]]`),
which keep the LAST chain of a port — with a shared port `hnd` still holds and the conclusion of `load_pos` is false for the code
(`shared_scan_port_outside`: the auditor's witness is outside `portsOK`); every positional / launch-on-capture theorem carries `hports`,
`stil hnd` answers it (`ports=`) and a well-formed generated case with `ports=false` is a broken tie.  `hp : (extract fl)[i]? = some p` — `Stil.extract` (pattern assembly from the call list, stil.py:28-56): since the audit
follow-up the section "pattern assembly" at the end proves what it yields on call lists of the shape ATPG tools (and the generator)
write — `extract_blocks`, `extract_count`, `extract_pattern`; for ARBITRARY call lists (a `load_unload` without capture, two captures
in a row, calls of other names) it has no theorem: what it guarantees there (pattern `i` = the load of the `i`-th `load_unload` that is followed by a capture, the
launch / capture parameters of the calls between it and the next `load_unload`, the unload of that next `load_unload`; strings
with `\n` removed and `N` → `-`) is tied to `StilFile.__init__` by exact correspondence only (driver `stil pats` == `s.patterns`
on every case) and checked against the generator's pattern list by the oracle.
**Theorems (kernel-checked, all chains / marker placements / strings / circuits):**
* `load_pos`, `unload_pos`, `pi_po_map`/`po_map`, `order_is_s_nodes`, `loc_transition` (+ `loc_transition_input`, `loc_rowwise`)
  about the model; `interp_table`, `mv_transition_table`, `mv_xor_table`, `invLoad_code` tie the model's value functions to the
  tables generated from the real `logic.interpret`, `logic.mv_transition`, `logic.mv_xor` on every run;
* `legacy_interface_agrees`, `first_flag_agrees`: when the two as-found variants (`Mode.legacy`) coincide with the property mode;
  `legacy_inversion_differs`, `legacy_interface_differs`: concrete inputs where they do not (findings D12, D11).
* text level (section `text`, model `KV.StilText` in Model/StilText.lean = the grammar of `stil.py` read as lark reads it:
  contextual scanner with the per-state terminal order of the real `Lark` object incl. the merged states after a quoted name
  and after a skipped `{ .. }` region, `/[^;]+/` values, nested skipped regions; then `StilFile.ok` = what the transformer and
  `StilFile.__init__` raise on): `stil_text_roundtrip` — `parseStil (printStil f) = some f` for every valid syntax tree;
  `stil_text_roundtrip_tree` (grammar alone).  `StilFile.toFile` (`dict(..)` semantics, `.SI` / path stripping of cell names) is the
  hand-over to `KV.Stil.File`.
**Correspondence (sampled, harness/c18.py):** model in property mode = real `StilFile.tests/tests_loc/responses` on generated
circuit x STIL-text pairs, the model being fed with the real parse result.  Text level: the model reader (driver `stilparse`)
against the real lark grammar — parse tree with ALL tokens kept — the real `stil.parse` (accept / raise) and its three
dictionaries `signal_groups` / `scan_chains` / `calls` (= `toFile`) on generated, hand-written and mutated texts.  Still trusted:
that lark implements the grammar as the hand-written reader does — checked by this correspondence, not proved.
**Oracle:** real results vs the generator's ground truth (which flip-flop / port must hold which value).
The 8-valued simulation inside `tests_loc` is a parameter (`nxt`) of `Stil.testsLoc`; section "end to end" below instantiates it
with `StilSim.nxtOf` — the real 8-valued dispatch `semL8` on the `SimOps` program of the netlist, stimulus = init column on
fresh memory, rows read at the captured lines — and composes with C02:
* `tests_loc_end_to_end` (+ `_input`, `_open`, `tests_loc_rows`): the value for scan cell `x` is `mv_transition(loaded value,
  σ(data line of x))`, σ any (= the unique, `loc_labelling_unique`) labelling consistent with the netlist under the assignment
  `loc_assignment_state/_input/_rest`; every well-formed netlist, topological order, chain / marker / pattern set;
* `s_nodes_bridge`: the STIL model's `Circ` and the netlist `Net` have the same `s_nodes` when `compatB` (same `io_nodes`, same
  node list) holds; `nxtOf_has_shape`; `driver_evaluates_nxtOf`: the driver's array executor computes `nxtOf`;
  `nxtOf_memory`: the memory row `c_to_s` reads for position `i` under the map of the `SimOps` model (no `c_reuse`, no
  `strip_forks`, any capacities) is entry `i` of the model's column (composition with C08).
**Correspondence for the composition:** `nxtOf` = `bp_to_mv(s[1])` of the LogicSim inside the real `tests_loc` (recorded, and
recomputed on the init matrix) and `tests_loc` of the model with `nxtOf` = the real result, on every generated case; `compatB`,
`wfB`, `orderOKB`, `forksOKB` evaluated by the driver on every real circuit and order. Not theorem: that `SimOps.__init__` /
`LogicSim` compute the rows and memory behaviour of their models (exact correspondence in C01/C08; signal level here),
`mv_to_bp`/`bp_to_mv` packing (C15), the optional `init_filter`/`launch_filter` (identity). -/
namespace KV.C18
open KV KV.Stil

/-! ## value functions = generated tables of the real functions -/
/-- `interp` is `logic.interpret` on every printable ASCII character (table regenerated from the code) -/
theorem interp_table : (Gen.interpretAscii.all fun p => (interp (Char.ofNat p.1)).code == p.2) = true := by
  decide +kernel

/-- `mvTransition` (written from the docstring) is `logic.mv_transition`, all 64 rows: row = init + 8*final -/
theorem mv_transition_table (i f : V3) : tab Gen.mv_transition2 (i.code + 8 * f.code) = (mvTransition i f).code :=
  mvAgree2_sound (f := mvTransition) (by decide +kernel) i f

/-- `xorInv b v` is `logic.mv_xor(v, ONE if b else ZERO)` -/
theorem mv_xor_table (b : Bool) (v : V3) :
    tab Gen.mvpub_xor2 (v.code + 8 * (V3.ofBool b).code) = (xorInv b v).code :=
  mvAgree2_sound (f := fun a b => specXor [a, b]) (by decide +kernel) v (V3.ofBool b)

/-- `invLoad` is `pattern ^ choose(pattern is - or X, [3 if inverted else 0, 0])` on the 3-bit codes -/
theorem invLoad_code (b : Bool) (v : V3) :
    (invLoad b v).code = v.code ^^^ (if v.unk then 0 else if b then 3 else 0) := by
  rcases v with ⟨x, y, z⟩; cases b <;> cases x <;> cases y <;> cases z <;> decide

/-- unknown / unassigned load characters are untouched by inversion; 0/1 are complemented iff the parity is odd -/
theorem invLoad_unknown (b : Bool) (v : V3) (h : v.unk = true) : invLoad b v = v := by simp [invLoad, h]
theorem invLoad_bool (a b : Bool) : invLoad b (V3.ofBool a) = V3.ofBool (a ^^ b) := by
  cases a <;> cases b <;> decide
/-- unloads go through `mv_xor`: 0/1 complemented iff the parity is odd, `X` and `-` both come out as `X` -/
theorem xorInv_bool (a b : Bool) : xorInv b (V3.ofBool a) = V3.ofBool (a ^^ b) := by
  cases a <;> cases b <;> decide
theorem xorInv_unknown (b : Bool) (v : V3) (h : v.unk = true) : xorInv b v = V3.unknown := by
  rcases v with ⟨x, y, z⟩; cases b <;> cases x <;> cases y <;> cases z <;> first | decide | (simp [V3.unk] at h)

/-! ## name → row (audit finding 2, fix D36)

`_maps` turns the names of the STIL file into rows of the result.  Interface names need not be unique: in a bench-style circuit
`OUTPUT(q1)  q1 = DFF(g)` the port fork and the flip-flop are both called `q1`.  The code as found built ONE dictionary over
`s_nodes` (the LAST position of a name: the flip-flop), so the `_po` character of port `q1` went to the flip-flop's row and the
port row stayed unassigned (`name_clash_as_found`).  Repaired (`LookMode.role`, the mode of all theorems): a `_pi`/`_po` member is
looked up among the ports first (`Circ.portRow`), a scan cell among the state elements first (`Circ.cellRow`); within its role
the last position counts (names are unique there in every real circuit: keys of `Circuit.cells` / `Circuit.forks`). -/

/-- the row of a scan cell that is a state element is a STATE row (at or behind `io_nodes`) carrying that name, whatever the ports
are called; the row of a group member that is a port is a PORT row carrying that name, whatever the state elements are called -/
theorem rows_by_role (c : Circ) (x : String) :
    (x ∈ c.stateNames → c.io.length ≤ c.cellRow x ∧ c.stateNames[c.cellRow x - c.io.length]? = some x) ∧
    (x ∈ c.io → c.portRow x < c.io.length ∧ c.io[c.portRow x]? = some x) ∧
    c.sNodes = c.io ++ c.stateNames :=
  ⟨cellRow_state, portRow_port, sNodes_split c⟩

/-- where the interface names are pairwise different (Verilog-style circuits: every interface node is a cell) both rows are
the position `s_nodes.idxOf x` — the formulation of the theorems before the audit -/
theorem rows_unique_names (c : Circ) (x : String) (hnd : c.sNodes.Nodup) (hx : x ∈ c.sNodes) :
    c.cellRow x = c.sNodes.idxOf x ∧ c.portRow x = c.sNodes.idxOf x := by
  have h1 := @cellRow_get c x hx
  have h2 := @portRow_get c x hx
  have h0 : c.sNodes[c.sNodes.idxOf x]? = some x := idxOf_get hx
  exact ⟨(List.getElem?_inj (cellRow_lt hx) hnd).1 (h1.trans h0.symm), (List.getElem?_inj (portRow_lt hx) hnd).1 (h2.trans h0.symm)⟩

/-! ## scan loads -/
/-- **load_pos.** If `tests` returns `M`, then in the column of pattern `i` the row of cell `x` — `c.cellRow x`: the row of the
state element of that name (`rows_by_role`; `s_nodes.idxOf x` where names are unique, `rows_unique_names`) — holds character `j` of the load string of the chain's scan-in port, `j` = number of cells between
`x` and scan-out, inverted iff the number of markers between scan-in and `x` is odd (`invLoad` leaves `X`/`-` alone).
`hnd`: no two scan cells / `_pi` members resolve to the same row. -/
theorem load_pos (c : Circ) (fl : File) (M : List (List V3)) (i : Nat) (p : Pat) (ch : Chain)
    (pre post : List String) (x : String) (s : List Char) (cj : Char)
    (hok : tests .spec c fl = .ok M) (hp : (extract fl)[i]? = some p)
    (hch : ch ∈ fl.chains) (hmid : ch.mid = pre ++ x :: post) (hx : isMark x = false) (hxin : x ∈ c.sNodes)
    (hnd : ((mapsPure .spec c fl).scanRows ++ (mapsPure .spec c fl).pi).Nodup)
    (hports : fl.portsOK = true)
    (hs : p.load.lookup ch.si = some s) (hcj : s[(cellsOf post).length]? = some cj) :
    ∃ col, M[i]? = some col ∧ c.sNodes[c.cellRow x]? = some x ∧
      col[c.cellRow x]? = some (invLoad (odd (markers pre)) (interp cj)) := by
  refine ⟨testsCol (mapsPure .spec c fl) p, ?_, cellRow_get hxin, ?_⟩
  · rw [tests_ok hok, List.getElem?_map, hp]; rfl
  · unfold testsCol
    apply applyWrites_get_unique
    · rw [List.map_append]
      exact ((loadWrites_targets _ _ _).append (zip_fst_sublist _ _)).nodup hnd
    · exact List.mem_append_left _ (loadWrites_mem c fl p ch pre post x invLoad hch hmid hx hs hcj)
    · rw [blank_length, mapsPure_n]; exact cellRow_lt hxin

/-! ## scan unloads -/
/-- **unload_pos.** In `responses`, the row of cell `x` holds character `j` (counted as above) of the unload string of
the chain's scan-out port, xor-ed (`mv_xor`) with the parity of the markers between `x` and scan-out. -/
theorem unload_pos (c : Circ) (fl : File) (M : List (List V3)) (i : Nat) (p : Pat) (ch : Chain)
    (pre post : List String) (x : String) (s : List Char) (cj : Char)
    (hok : responses .spec c fl = .ok M) (hp : (extract fl)[i]? = some p)
    (hch : ch ∈ fl.chains) (hmid : ch.mid = pre ++ x :: post) (hx : isMark x = false) (hxin : x ∈ c.sNodes)
    (hnd : ((mapsPure .spec c fl).po ++ (mapsPure .spec c fl).scanRows).Nodup)
    (hports : fl.portsOK = true)
    (hs : p.unload.lookup ch.so = some s) (hcj : s[(cellsOf post).length]? = some cj) :
    ∃ col, M[i]? = some col ∧ c.sNodes[c.cellRow x]? = some x ∧
      col[c.cellRow x]? = some (xorInv (odd (markers post)) (interp cj)) := by
  refine ⟨respCol (mapsPure .spec c fl) p, ?_, cellRow_get hxin, ?_⟩
  · rw [responses_ok hok, List.getElem?_map, hp]; rfl
  · unfold respCol
    apply applyWrites_get_unique
    · rw [List.map_append]
      exact ((zip_fst_sublist _ _).append (unloadWrites_targets _ _)).nodup hnd
    · exact List.mem_append_right _ (unloadWrites_mem c fl p ch pre post x hch hmid hx hs hcj)
    · rw [blank_length, mapsPure_n]; exact cellRow_lt hxin

/-! ## primary inputs and outputs through the signal groups -/
/-- **pi_po_map (inputs).** Character `k` of the capture call's `_pi` string lands, uninverted, on the row of the
`k`-th member of signal group `_pi`, whatever the order of the group. -/
theorem pi_po_map (c : Circ) (fl : File) (M : List (List V3)) (i : Nat) (p : Pat) (k : Nat) (x : String)
    (s : List Char) (ck : Char)
    (hok : tests .spec c fl = .ok M) (hp : (extract fl)[i]? = some p)
    (hk : (group fl "_pi")[k]? = some x) (hxin : x ∈ c.sNodes)
    (hnd : ((mapsPure .spec c fl).scanRows ++ (mapsPure .spec c fl).pi).Nodup)
    (hports : fl.portsOK = true)
    (hs : p.capture.lookup "_pi" = some s) (hck : s[k]? = some ck) :
    ∃ col, M[i]? = some col ∧ c.sNodes[c.portRow x]? = some x ∧
      col[c.portRow x]? = some (interp ck) := by
  refine ⟨testsCol (mapsPure .spec c fl) p, ?_, portRow_get hxin, ?_⟩
  · rw [tests_ok hok, List.getElem?_map, hp]; rfl
  · unfold testsCol
    apply applyWrites_get_unique
    · rw [List.map_append]
      exact ((loadWrites_targets _ _ _).append (zip_fst_sublist _ _)).nodup hnd
    · apply List.mem_append_right
      rw [str_of_lookup hs]
      exact group_write_mem c _ s k x ck hk hck
    · rw [blank_length, mapsPure_n]; exact portRow_lt hxin

/-- **pi_po_map (outputs).** Character `k` of the capture call's `_po` string lands on the row of the `k`-th member
of signal group `_po` in `responses`. -/
theorem po_map (c : Circ) (fl : File) (M : List (List V3)) (i : Nat) (p : Pat) (k : Nat) (x : String)
    (s : List Char) (ck : Char)
    (hok : responses .spec c fl = .ok M) (hp : (extract fl)[i]? = some p)
    (hk : (group fl "_po")[k]? = some x) (hxin : x ∈ c.sNodes)
    (hnd : ((mapsPure .spec c fl).po ++ (mapsPure .spec c fl).scanRows).Nodup)
    (hports : fl.portsOK = true)
    (hcap : p.capture.length > 0) (hs : p.capture.lookup "_po" = some s) (hck : s[k]? = some ck) :
    ∃ col, M[i]? = some col ∧ c.sNodes[c.portRow x]? = some x ∧
      col[c.portRow x]? = some (interp ck) := by
  refine ⟨respCol (mapsPure .spec c fl) p, ?_, portRow_get hxin, ?_⟩
  · rw [responses_ok hok, List.getElem?_map, hp]; rfl
  · unfold respCol
    apply applyWrites_get_unique
    · rw [List.map_append]
      exact ((zip_fst_sublist _ _).append (unloadWrites_targets _ _)).nodup hnd
    · apply List.mem_append_left
      have : poStr p = s := by simp [poStr, hcap, str_of_lookup hs]
      rw [this]
      exact group_write_mem c _ s k x ck hk hck
    · rw [blank_length, mapsPure_n]; exact portRow_lt hxin

/-! ## rows follow `s_nodes` -/
/-- **order_is_s_nodes.** Every column returned by the three functions has one row per element of `s_nodes`
(io_nodes, then kinds containing "dff", then kinds containing "latch", case-insensitive); together with the row
index `cellRow x` / `portRow x` in the theorems above, row `r` belongs to `s_nodes[r]`. -/
theorem order_is_s_nodes (c : Circ) (fl : File) (nxt M : List (List V3)) :
    (tests .spec c fl = .ok M → ∀ col ∈ M, col.length = c.sNodes.length) ∧
    (responses .spec c fl = .ok M → ∀ col ∈ M, col.length = c.sNodes.length) ∧
    (testsLoc .spec c fl nxt = .ok M → ∀ col ∈ M, col.length = c.sNodes.length) := by
  refine ⟨?_, ?_, ?_⟩
  · intro h col hc
    rw [tests_ok h] at hc
    obtain ⟨p, _, rfl⟩ := List.mem_map.1 hc
    simp [testsCol, applyWrites_length, blank_length, mapsPure_n]
  · intro h col hc
    rw [responses_ok h] at hc
    obtain ⟨p, _, rfl⟩ := List.mem_map.1 hc
    simp [respCol, applyWrites_length, blank_length, mapsPure_n]
  · intro h col hc
    obtain ⟨hM, hlen, hnx⟩ := testsLoc_ok h
    obtain ⟨i, hi⟩ := List.mem_iff_getElem?.1 hc
    have hil : i < (extract fl).length := by
      have := (List.getElem?_eq_some_iff.1 hi).1
      rw [hM, zipCols_length _ _ _ hlen] at this; exact this
    have hp : (extract fl)[i]? = some (extract fl)[i] := List.getElem?_eq_getElem hil
    have hn : nxt[i]? = some (nxt[i]'(by omega)) := List.getElem?_eq_getElem (by omega)
    have := zipCols_get (locCol (mapsPure .spec c fl)) _ _ i _ _ hp hn
    rw [← hM, hi] at this
    injection this with this
    rw [this]
    have hnl := hnx _ (List.getElem_mem (by omega : i < nxt.length))
    simp [locCol, initCol, launchCol, applyWrites_length, blank_length, mapsPure_n, hnl]

/-- when one of the three functions returns (no `KeyError`), every scan cell and every `_pi` / `_po` member is an element
of `s_nodes`: hypothesis `hxin` of the positional theorems is implied by the call having succeeded -/
theorem names_resolve (c : Circ) (fl : File) (M : List (List V3))
    (h : tests .spec c fl = .ok M ∨ responses .spec c fl = .ok M ∨ ∃ nxt, testsLoc .spec c fl nxt = .ok M) :
    (∀ ch ∈ fl.chains, ∀ x ∈ cellsOf ch.mid, x ∈ c.sNodes) ∧
    (∀ x ∈ group fl "_pi", x ∈ c.sNodes) ∧ (∀ x ∈ group fl "_po", x ∈ c.sNodes) := by
  have hm : mapsErr .spec c fl = none := by
    rcases h with h | h | ⟨nxt, h⟩
    · exact tests_ok_maps h
    · exact responses_ok_maps h
    · exact testsLoc_ok_maps h
  exact ⟨fun ch hch x hx => mapsErr_none_cells hm ch hch x hx,
         fun x hx => mapsErr_none_group hm "_pi" (Or.inl rfl) x hx,
         fun x hx => mapsErr_none_group hm "_po" (Or.inr rfl) x hx⟩

/-- the interface of `_maps` as found equals `s_nodes` exactly on circuits whose state-element kinds contain the
upper-case substring `DFF` and that have no latches -/
theorem legacy_interface_agrees (c : Circ)
    (h : ∀ n ∈ c.nodes, Stil.hasSub "dff".toList (lowerOf n.2) = Stil.hasSub "DFF".toList n.2.toList ∧
                        Stil.hasSub "latch".toList (lowerOf n.2) = false) :
    c.upperDffIntf = c.sNodes := by
  unfold Circ.upperDffIntf Circ.sNodes
  have h1 : (c.nodes.filter fun n => Stil.hasSub "latch".toList (lowerOf n.2)) = [] := by
    rw [List.filter_eq_nil_iff]; intro n hn; have h2 := (h n hn).2; simp_all
  have h2 : (c.nodes.filter fun n => Stil.hasSub "dff".toList (lowerOf n.2)) =
      c.nodes.filter fun n => Stil.hasSub "DFF".toList n.2.toList := by
    apply List.filter_congr; intro n hn; exact (h n hn).1
  rw [h1, h2]; simp

/-- keeping only the first inversion flag is harmless exactly when all flags of the chain are equal, e.g. no markers -/
theorem first_flag_agrees (mid : List String) (h : markers mid = 0) :
    invVec .first (scanInInv mid) = scanInInv mid ∧ invVec .first (scanOutInv mid) = scanOutInv mid := by
  have key : ∀ (l : List String) (b : Bool), markers l = 0 → invScan b l = List.replicate (cellsOf l).length b := by
    intro l
    induction l with
    | nil => intro b _; rfl
    | cons n r ih =>
      intro b hm
      by_cases hn : isMark n = true
      · simp [markers, hn] at hm
      · have hn' : isMark n = false := by simpa using hn
        rw [invScan_cell b hn', cellsOf_cons_cell hn', ih b (by simpa [markers_cons_cell hn'] using hm)]; rfl
  have rep : ∀ (n : Nat) (b : Bool), invVec .first (List.replicate n b) = List.replicate n b := by
    intro n b; cases n <;> simp [invVec, List.replicate_succ]
  have hr : markers mid.reverse = 0 := by rw [markers_reverse]; exact h
  constructor
  · simp only [scanInInv, key mid false h, List.reverse_replicate]; exact rep _ _
  · simp only [scanOutInv, key mid.reverse false hr]; exact rep _ _

/-! ## launch-on-capture -/
/-- **loc_rowwise.** Every value returned by `tests_loc` is `mv_transition(init, launch)` of the two columns. -/
theorem loc_rowwise (c : Circ) (fl : File) (nxt M : List (List V3)) (i : Nat) (p : Pat) (nx : List V3)
    (hok : testsLoc .spec c fl nxt = .ok M) (hp : (extract fl)[i]? = some p) (hn : nxt[i]? = some nx) :
    M[i]? = some (List.zipWith mvTransition (initCol (mapsPure .spec c fl) p) (launchCol (mapsPure .spec c fl) p nx)) := by
  rw [(testsLoc_ok hok).1]
  exact zipCols_get _ _ _ i p nx hp hn

/-- **loc_transition (flip-flops).** For cell `x` of a chain, the value is `mv_transition(init, launch)` with
init = the loaded value (as in `load_pos`) and launch = the simulated next state `nx[row]` when the launch call and the
capture call both pulse a clock (`noLaunchPulse p = false`), else the loaded state (through `mv_xor`).
`hnd`: scan cells, `_pi` and `_po` members resolve to pairwise different rows. -/
theorem loc_transition (c : Circ) (fl : File) (nxt M : List (List V3)) (i : Nat) (p : Pat) (nx : List V3)
    (ch : Chain) (pre post : List String) (x : String) (s : List Char) (cj : Char)
    (hok : testsLoc .spec c fl nxt = .ok M) (hp : (extract fl)[i]? = some p) (hn : nxt[i]? = some nx)
    (hch : ch ∈ fl.chains) (hmid : ch.mid = pre ++ x :: post) (hx : isMark x = false) (hxin : x ∈ c.sNodes)
    (hnd : ((mapsPure .spec c fl).scanRows ++ (mapsPure .spec c fl).pi ++ (mapsPure .spec c fl).po).Nodup)
    (hports : fl.portsOK = true)
    (hs : p.load.lookup ch.si = some s) (hcj : s[(cellsOf post).length]? = some cj) :
    ∃ col, M[i]? = some col ∧ c.sNodes[c.cellRow x]? = some x ∧
      col[c.cellRow x]? = some (mvTransition (invLoad (odd (markers pre)) (interp cj))
        (if noLaunchPulse p then xorInv (odd (markers pre)) (interp cj) else nx.getD (c.cellRow x) V3.unknown)) := by
  obtain ⟨_, _, hnx⟩ := testsLoc_ok hok
  have hnl : nx.length = c.sNodes.length := hnx nx (List.mem_of_getElem? hn)
  have hr : c.cellRow x < c.sNodes.length := cellRow_lt hxin
  have hnd1 := (List.nodup_append.1 hnd).1
  have hdisj := (List.nodup_append.1 hnd).2.2
  have hrow := row_mem_scanRows c fl ch pre post x hch hmid hx
  refine ⟨_, loc_rowwise c fl nxt M i p nx hok hp hn, cellRow_get hxin, ?_⟩
  rw [List.getElem?_zipWith_eq_some]
  refine ⟨_, _, ?_, ?_, rfl⟩
  · unfold initCol
    apply applyWrites_get_unique
    · rw [List.map_append]
      exact ((loadWrites_targets _ _ _).append (zip_fst_sublist _ _)).nodup hnd1
    · exact List.mem_append_left _ (loadWrites_mem c fl p ch pre post x invLoad hch hmid hx hs hcj)
    · rw [blank_length, mapsPure_n]; exact hr
  · unfold launchCol
    have hpo : ((mapsPure .spec c fl).po.map fun i => (i, V3.unassigned)).map Prod.fst = (mapsPure .spec c fl).po := by
      simp [List.map_map, Function.comp_def]
    have hpi : ∀ (b : Bool) (l : List V3), ((if b then (mapsPure .spec c fl).pi.zip l else []).map Prod.fst).Sublist
        (mapsPure .spec c fl).pi := by
      intro b l; cases b
      · simp
      · exact zip_fst_sublist _ _
    by_cases hl : noLaunchPulse p = true
    · simp only [hl, if_true]
      apply applyWrites_get_unique
      · rw [List.map_append, List.map_append, hpo]
        exact (((loadWrites_targets _ _ _).append (hpi _ _)).append (List.Sublist.refl _)).nodup hnd
      · exact List.mem_append_left _ (List.mem_append_left _
          (loadWrites_mem c fl p ch pre post x xorInv hch hmid hx hs hcj))
      · omega
    · have hl' : noLaunchPulse p = false := by simpa using hl
      simp only [hl', Bool.false_eq_true, if_false, List.nil_append]
      rw [applyWrites_get_of_not_mem]
      · rw [List.getD_eq_getElem?_getD, List.getElem?_eq_getElem (by omega : c.cellRow x < nx.length)]; rfl
      · intro hm
        rw [List.map_append, hpo] at hm
        rcases List.mem_append.1 hm with h1 | h1
        · have hd := (List.nodup_append.1 hnd1).2.2
          exact hd _ hrow _ ((hpi _ _).subset h1) rfl
        · exact hdisj _ (List.mem_append_left _ hrow) _ h1 rfl

/-- **loc_transition (inputs).** For the `k`-th member `x` of `_pi`: init = character `k` of the launch call's `_pi`
string (of the capture call's when there is no launch call), launch = character `k` of the capture call's `_pi`
string when that call pulses a clock, else whatever the simulator left in that row. -/
theorem loc_transition_input (c : Circ) (fl : File) (nxt M : List (List V3)) (i : Nat) (p : Pat) (nx : List V3)
    (k : Nat) (x : String) (ci cc : Char)
    (hok : testsLoc .spec c fl nxt = .ok M) (hp : (extract fl)[i]? = some p) (hn : nxt[i]? = some nx)
    (hk : (group fl "_pi")[k]? = some x) (hxin : x ∈ c.sNodes)
    (hnd : ((mapsPure .spec c fl).scanRows ++ (mapsPure .spec c fl).pi ++ (mapsPure .spec c fl).po).Nodup)
    (hports : fl.portsOK = true)
    (hci : (initPiStr p)[k]? = some ci) (hcc : capturePulse p = true → (str p.capture "_pi")[k]? = some cc) :
    ∃ col, M[i]? = some col ∧ c.sNodes[c.portRow x]? = some x ∧
      col[c.portRow x]? = some (mvTransition (interp ci)
        (if capturePulse p then interp cc else nx.getD (c.portRow x) V3.unknown)) := by
  obtain ⟨_, _, hnx⟩ := testsLoc_ok hok
  have hnl : nx.length = c.sNodes.length := hnx nx (List.mem_of_getElem? hn)
  have hr : c.portRow x < c.sNodes.length := portRow_lt hxin
  have hnd1 := (List.nodup_append.1 hnd).1
  have hdisj := (List.nodup_append.1 hnd).2.2
  have hrow : c.portRow x ∈ (mapsPure .spec c fl).pi := by
    simp only [mapsPure, Mode.spec, Circ.intf]
    exact List.mem_map.2 ⟨x, List.mem_of_getElem? hk, rfl⟩
  refine ⟨_, loc_rowwise c fl nxt M i p nx hok hp hn, portRow_get hxin, ?_⟩
  rw [List.getElem?_zipWith_eq_some]
  refine ⟨_, _, ?_, ?_, rfl⟩
  · unfold initCol
    apply applyWrites_get_unique
    · rw [List.map_append]
      exact ((loadWrites_targets _ _ _).append (zip_fst_sublist _ _)).nodup hnd1
    · exact List.mem_append_right _ (group_write_mem c _ _ k x ci hk hci)
    · rw [blank_length, mapsPure_n]; exact hr
  · unfold launchCol
    have hpo : ((mapsPure .spec c fl).po.map fun i => (i, V3.unassigned)).map Prod.fst = (mapsPure .spec c fl).po := by
      simp [List.map_map, Function.comp_def]
    have hld : ∀ (b : Bool), ((if b then loadWrites xorInv (mapsPure .spec c fl).chains p else []).map Prod.fst).Sublist
        (mapsPure .spec c fl).scanRows := by
      intro b; cases b
      · simp
      · exact loadWrites_targets _ _ _
    by_cases hc : capturePulse p = true
    · simp only [hc, if_true]
      apply applyWrites_get_unique
      · rw [List.map_append, List.map_append, hpo]
        exact (((hld _).append (zip_fst_sublist _ _)).append (List.Sublist.refl _)).nodup hnd
      · exact List.mem_append_left _ (List.mem_append_right _ (group_write_mem c _ _ k x cc hk (hcc hc)))
      · omega
    · have hc' : capturePulse p = false := by simpa using hc
      simp only [hc', Bool.false_eq_true, if_false, List.append_nil]
      rw [applyWrites_get_of_not_mem]
      · rw [List.getD_eq_getElem?_getD, List.getElem?_eq_getElem (by omega : c.portRow x < nx.length)]; rfl
      · intro hm
        rw [List.map_append, hpo] at hm
        rcases List.mem_append.1 hm with h1 | h1
        · have hd := (List.nodup_append.1 hnd1).2.2
          exact hd _ ((hld _).subset h1) _ hrow rfl
        · exact hdisj _ (List.mem_append_right _ hrow) _ h1 rfl

/-! ## launch-on-capture, end to end: the simulation inside `tests_loc` is no longer a parameter (composition with C02)

`StilSim.nxtOf c fl net order` (Model/StilSim.lean, Proofs/StilSim.lean) is the matrix `tests_loc` reads back from its own
`LogicSim(circuit, m=8)`: per pattern, the real 8-valued dispatch `semL8` runs the `SimOps` program of the netlist
(`genOps Gen.kindPrefixes net order false`) on the stimulus `envOf net init` — input slot of `s_nodes` position `r` = row `r` of
the `init` column, every other signal `ZERO` (fresh memory) — and row `r` is `captured`: the value of the line on input pin 0 of
the `r`-th `s_nodes` element.  `net : Net` is the canonical dump of the same `Circuit` whose names/kinds are `c : Circ`
(`compatB c net names`, decidable, evaluated by the driver on every generated case).  `σ` below is ANY labelling consistent with
the netlist (`NetConsistent`, specification evaluator's gate equations over `specNot`/`prim8`) for that stimulus — by
`loc_labelling_unique` there is exactly one on the lines. -/
open KV.StilSim

/-- the driver's `stilsim` command evaluates `nxtOf` / `tests_loc` with `nxtOf`: its dispatch is `semL8` by definition, its
array executor (`StilSim.execA`) computes the rows of `exec` on every well-formed netlist and topological order -/
theorem driver_sem : Drv.StilSim.sem8L = semL8 := rfl
theorem driver_evaluates_nxtOf (c : Circ) (fl : File) (net : Net) (order : List Nat) (hwf : net.wfB = true)
    (ho : orderOKB net order = true) :
    Drv.StilSim.nxtCols .spec c fl net order = nxtOf c fl net order := nxtOfA_eq c fl net order hwf ho

/-- **bridge.** the two views of the circuit have the same `s_nodes`, node index ↦ name -/
theorem s_nodes_bridge (c : Circ) (net : Net) (names : List String) (h : compatB c net names = true) :
    c.sNodes = net.sNodes.map (nameAt names) := sNodes_bridge h

/-- the simulated matrix always has the shape `tests_loc` expects (the `shape` error of the parameterised model cannot occur) -/
theorem nxtOf_has_shape (c : Circ) (fl : File) (net : Net) (names : List String) (order : List Nat)
    (h : compatB c net names = true) :
    (nxtOf c fl net order).length = (extract fl).length ∧ ∀ col ∈ nxtOf c fl net order, col.length = c.sNodes.length :=
  nxtOf_shape order h

/-- **the assignment (state).** What the simulator is given for scan cell `x`: its input slot holds the loaded value -/
theorem loc_assignment_state (c : Circ) (fl : File) (net : Net) (names : List String) (p : Pat)
    (ch : Chain) (pre post : List String) (x : String) (s : List Char) (cj : Char)
    (hcompat : compatB c net names = true)
    (hch : ch ∈ fl.chains) (hmid : ch.mid = pre ++ x :: post) (hx : isMark x = false) (hxin : x ∈ c.sNodes)
    (hnd : ((mapsPure .spec c fl).scanRows ++ (mapsPure .spec c fl).pi).Nodup)
    (hports : fl.portsOK = true)
    (hs : p.load.lookup ch.si = some s) (hcj : s[(cellsOf post).length]? = some cj) :
    envOf net (initCol (mapsPure .spec c fl) p) (net.idx.ppi + c.cellRow x) =
      invLoad (odd (markers pre)) (interp cj) := by
  obtain ⟨n, _, _, hlt⟩ := row_node hcompat hxin
  rw [envOf_ppi net _ _ hlt, List.getD_eq_getElem?_getD]
  have : (initCol (mapsPure .spec c fl) p)[c.cellRow x]? = some (invLoad (odd (markers pre)) (interp cj)) := by
    unfold initCol
    apply applyWrites_get_unique
    · rw [List.map_append]
      exact ((loadWrites_targets _ _ _).append (zip_fst_sublist _ _)).nodup hnd
    · exact List.mem_append_left _ (loadWrites_mem c fl p ch pre post x invLoad hch hmid hx hs hcj)
    · rw [blank_length, mapsPure_n]; exact cellRow_lt hxin
  rw [this]; rfl

/-- **the assignment (inputs).** … and for the `k`-th member of `_pi` character `k` of the launch call's `_pi` string (of the
capture call's when there is no launch call) -/
theorem loc_assignment_input (c : Circ) (fl : File) (net : Net) (names : List String) (p : Pat)
    (k : Nat) (x : String) (ci : Char) (hcompat : compatB c net names = true)
    (hk : (group fl "_pi")[k]? = some x) (hxin : x ∈ c.sNodes)
    (hnd : ((mapsPure .spec c fl).scanRows ++ (mapsPure .spec c fl).pi).Nodup)
    (hports : fl.portsOK = true)
    (hci : (initPiStr p)[k]? = some ci) :
    envOf net (initCol (mapsPure .spec c fl) p) (net.idx.ppi + c.portRow x) = interp ci := by
  obtain ⟨n, _, _, hlt⟩ := row_node_port hcompat hxin
  rw [envOf_ppi net _ _ hlt, List.getD_eq_getElem?_getD]
  have : (initCol (mapsPure .spec c fl) p)[c.portRow x]? = some (interp ci) := by
    unfold initCol
    apply applyWrites_get_unique
    · rw [List.map_append]
      exact ((loadWrites_targets _ _ _).append (zip_fst_sublist _ _)).nodup hnd
    · exact List.mem_append_right _ (group_write_mem c _ _ k x ci hk hci)
    · rw [blank_length, mapsPure_n]; exact portRow_lt hxin
  rw [this]; rfl

/-- **the assignment (rest).** every signal that is not an input slot — the constant-0 slot, the scratch slots, lines before
they are written — starts as `ZERO` -/
theorem loc_assignment_rest (net : Net) (col : List V3) (y : Nat) (h : y < net.idx.ppi ∨ net.idx.ppo ≤ y) :
    envOf net col y = V3.zero := envOf_outside net col y h

/-- **existence and uniqueness of σ.** For every well-formed netlist, topological order and init column there is a labelling
consistent with the netlist — the simulation result — and every consistent labelling equals it on every signal but the
scratch slot, in particular on every line (C02 `sim8_netlist_all_circuits` at the stimulus of `tests_loc`) -/
theorem loc_labelling_unique (net : Net) (order : List Nat) (hwf : net.wfB = true) (ho : orderOKB net order = true)
    (hfk : forksOKB net order = true) (col : List V3) :
    NetConsistent net order specNot prim8 (envOf net col) (valOf net order col) ∧
    ∀ σ, NetConsistent net order specNot prim8 (envOf net col) σ → ∀ y, y ≠ net.idx.tmp → σ y = valOf net order col y :=
  ⟨valOf_consistent net order hwf ho hfk col, valOf_unique net order hwf ho hfk col⟩

/-- **tests_loc_rows.** With its own simulation, the value `tests_loc` returns for scan cell `x` is
`mv_transition(loaded value, captured row)`; `captured` reads the result of the `SimOps` program at the line the `r`-th
`s_nodes` element captures (general form: any pin connection) -/
theorem tests_loc_rows (c : Circ) (fl : File) (net : Net) (names : List String) (order : List Nat)
    (M : List (List V3)) (i : Nat) (p : Pat)
    (ch : Chain) (pre post : List String) (x : String) (s : List Char) (cj : Char)
    (hcompat : compatB c net names = true)
    (hok : testsLoc .spec c fl (nxtOf c fl net order) = .ok M) (hp : (extract fl)[i]? = some p)
    (hch : ch ∈ fl.chains) (hmid : ch.mid = pre ++ x :: post) (hx : isMark x = false) (hxin : x ∈ c.sNodes)
    (hnd : ((mapsPure .spec c fl).scanRows ++ (mapsPure .spec c fl).pi ++ (mapsPure .spec c fl).po).Nodup)
    (hports : fl.portsOK = true)
    (hs : p.load.lookup ch.si = some s) (hcj : s[(cellsOf post).length]? = some cj) :
    ∃ col, M[i]? = some col ∧ c.sNodes[c.cellRow x]? = some x ∧
      col[c.cellRow x]? = some (mvTransition (invLoad (odd (markers pre)) (interp cj))
        (if noLaunchPulse p then xorInv (odd (markers pre)) (interp cj)
         else captured net (valOf net order (initCol (mapsPure .spec c fl) p)) (c.cellRow x))) := by
  obtain ⟨n, _, _, hlt⟩ := row_node hcompat hxin
  have := loc_transition c fl _ M i p _ ch pre post x s cj hok hp (nxtOf_get hp) hch hmid hx hxin hnd hports hs hcj
  rwa [simRow_getD _ _ _ _ _ _ hlt] at this

/-- **tests_loc_end_to_end (flip-flops).** For every well-formed netlist and topological order, every chain / marker / pattern
set: the value `tests_loc` returns for scan cell `x` in pattern `i` is `mv_transition(loaded value, σ(data line of x))`, where
`n` is the node named `x` (the `r`-th `s_nodes` element, `r` = row of `x`), `l` the line on its input pin 0, and `σ` the (unique)
labelling consistent with the netlist under the assignment of `loc_assignment_state/_input/_rest` — and the loaded state
itself (through `mv_xor`) under the no-pulse rule. -/
theorem tests_loc_end_to_end (c : Circ) (fl : File) (net : Net) (names : List String) (order : List Nat)
    (M : List (List V3)) (i : Nat) (p : Pat)
    (ch : Chain) (pre post : List String) (x : String) (s : List Char) (cj : Char) (σ : Nat → V3) (n l : Nat)
    (hwf : net.wfB = true) (ho : orderOKB net order = true) (hfk : forksOKB net order = true)
    (hcompat : compatB c net names = true)
    (hok : testsLoc .spec c fl (nxtOf c fl net order) = .ok M) (hp : (extract fl)[i]? = some p)
    (hch : ch ∈ fl.chains) (hmid : ch.mid = pre ++ x :: post) (hx : isMark x = false) (hxin : x ∈ c.sNodes)
    (hnd : ((mapsPure .spec c fl).scanRows ++ (mapsPure .spec c fl).pi ++ (mapsPure .spec c fl).po).Nodup)
    (hports : fl.portsOK = true)
    (hs : p.load.lookup ch.si = some s) (hcj : s[(cellsOf post).length]? = some cj)
    (hσ : NetConsistent net order specNot prim8 (envOf net (initCol (mapsPure .spec c fl) p)) σ)
    (hn : net.sNodes[c.cellRow x]? = some n) (hl : (net.node n).inPin 0 = some l) :
    ∃ col, M[i]? = some col ∧ c.sNodes[c.cellRow x]? = some x ∧ nameAt names n = x ∧
      col[c.cellRow x]? = some (mvTransition (invLoad (odd (markers pre)) (interp cj))
        (if noLaunchPulse p then xorInv (odd (markers pre)) (interp cj) else σ l)) := by
  obtain ⟨col, h1, h2, h3⟩ := tests_loc_rows c fl net names order M i p ch pre post x s cj hcompat hok hp hch hmid hx hxin
    hnd hports hs hcj
  obtain ⟨n', hn', hname, _⟩ := row_node hcompat hxin
  rw [hn] at hn'; injection hn' with hn'; subst hn'
  refine ⟨col, h1, h2, hname, ?_⟩
  rw [h3, captured_pin hn hl, captured_of_consistent net order hwf ho hfk _ σ hσ hl]

/-- a state element without data connection captures the constant 0 (sim.py:309-310) -/
theorem tests_loc_end_to_end_open (c : Circ) (fl : File) (net : Net) (names : List String) (order : List Nat)
    (M : List (List V3)) (i : Nat) (p : Pat)
    (ch : Chain) (pre post : List String) (x : String) (s : List Char) (cj : Char) (n : Nat)
    (hcompat : compatB c net names = true)
    (hok : testsLoc .spec c fl (nxtOf c fl net order) = .ok M) (hp : (extract fl)[i]? = some p)
    (hch : ch ∈ fl.chains) (hmid : ch.mid = pre ++ x :: post) (hx : isMark x = false) (hxin : x ∈ c.sNodes)
    (hnd : ((mapsPure .spec c fl).scanRows ++ (mapsPure .spec c fl).pi ++ (mapsPure .spec c fl).po).Nodup)
    (hports : fl.portsOK = true)
    (hs : p.load.lookup ch.si = some s) (hcj : s[(cellsOf post).length]? = some cj)
    (hn : net.sNodes[c.cellRow x]? = some n) (hl : (net.node n).inPin 0 = none)
    (hst : net.io.length ≤ c.cellRow x) :
    ∃ col, M[i]? = some col ∧ c.sNodes[c.cellRow x]? = some x ∧
      col[c.cellRow x]? = some (mvTransition (invLoad (odd (markers pre)) (interp cj))
        (if noLaunchPulse p then xorInv (odd (markers pre)) (interp cj) else V3.zero)) := by
  obtain ⟨col, h1, h2, h3⟩ := tests_loc_rows c fl net names order M i p ch pre post x s cj hcompat hok hp hch hmid hx hxin
    hnd hports hs hcj
  exact ⟨col, h1, h2, by rw [h3, captured_open_state hn hl hst]⟩

/-- **tests_loc_end_to_end (inputs).** For the `k`-th member `x` of `_pi`, as in `loc_transition_input`; without a capture
pulse the launch value is what the simulator captured for that port: the line it reads if it is driven (`σ l`), and
`UNASSIGNED` for a port without driver (an input) -/
theorem tests_loc_end_to_end_input (c : Circ) (fl : File) (net : Net) (names : List String) (order : List Nat)
    (M : List (List V3)) (i : Nat) (p : Pat) (k : Nat) (x : String) (ci cc : Char) (σ : Nat → V3) (n : Nat)
    (hwf : net.wfB = true) (ho : orderOKB net order = true) (hfk : forksOKB net order = true)
    (hcompat : compatB c net names = true)
    (hok : testsLoc .spec c fl (nxtOf c fl net order) = .ok M) (hp : (extract fl)[i]? = some p)
    (hk : (group fl "_pi")[k]? = some x) (hxin : x ∈ c.sNodes)
    (hnd : ((mapsPure .spec c fl).scanRows ++ (mapsPure .spec c fl).pi ++ (mapsPure .spec c fl).po).Nodup)
    (hports : fl.portsOK = true)
    (hci : (initPiStr p)[k]? = some ci) (hcc : capturePulse p = true → (str p.capture "_pi")[k]? = some cc)
    (hσ : NetConsistent net order specNot prim8 (envOf net (initCol (mapsPure .spec c fl) p)) σ)
    (hn : net.sNodes[c.portRow x]? = some n) (hio : c.portRow x < net.io.length) :
    ∃ col, M[i]? = some col ∧ c.sNodes[c.portRow x]? = some x ∧ nameAt names n = x ∧
      col[c.portRow x]? = some (mvTransition (interp ci)
        (if capturePulse p then interp cc else
          match (net.node n).inPin 0 with
          | some l => σ l
          | none => V3.unassigned)) := by
  obtain ⟨n', hn', hname, hlt⟩ := row_node_port hcompat hxin
  rw [hn] at hn'; injection hn' with hn'; subst hn'
  obtain ⟨col, h1, h2, h3⟩ := loc_transition_input c fl _ M i p _ k x ci cc hok hp (nxtOf_get hp) hk hxin hnd hports hci hcc
  refine ⟨col, h1, h2, hname, ?_⟩
  rw [h3, simRow_getD _ _ _ _ _ _ hlt]
  cases hl : (net.node n).inPin 0 with
  | none => rw [captured_open_port hn hl hio]
  | some l =>
    rw [captured_pin hn hl]
    have := captured_of_consistent net order hwf ho hfk _ σ hσ hl
    unfold valOf at this
    rw [this]

/-- **memory level.** `nxtOf` is stated on signals; what `c_to_s` reads is a memory row.  For the tables the `SimOps` model
builds with the options of `tests_loc` (`strip_forks = False`, `c_reuse = False`; any capacity vector, `c_caps_min > 0`), after
the op rows have run ON MEMORY from any initial memory `m0` that holds the stimulus in the slots no row writes (`h0`: what
`np.zeros` + `s_to_c` leave), the row of the output slot of the `i`-th `s_nodes` element is the entry `i` of the model's column
(composition with `C08.simops_map_accepted` through `simops_mem_value`; domain `readsDrivenB`: every read or captured line is
written by a row) -/
theorem nxtOf_memory (net : Net) (order : List Nat) (capsIn : Nat → Nat) (capsMin : Nat) (hwf : net.wfB = true)
    (ho : orderOKB net order = true) (hr : readsDrivenB Gen.kindPrefixes net order = true) (hpos : 0 < capsMin)
    (col : List V3) (m0 : Int → V3)
    (h0 : ∀ x ∈ (simopsMap Gen.kindPrefixes net order false capsIn capsMin false).tracked,
      (∀ o ∈ (simopsMap Gen.kindPrefixes net order false capsIn capsMin false).ops, o.out ≠ x) →
        m0 ((simopsMap Gen.kindPrefixes net order false capsIn capsMin false).loc x) = envOf net col x)
    (n i l : Nat) (hn : (n, i) ∈ net.sNodes.zipIdx) (hl : (net.node n).inPin 0 = some l) :
    MapSound.memRun (simopsMap Gen.kindPrefixes net order false capsIn capsMin false) (MapSound.rowRW V3)
        (fun o => semL8 o.lut) (simopsMap Gen.kindPrefixes net order false capsIn capsMin false).ops m0
        ((simopsMap Gen.kindPrefixes net order false capsIn capsMin false).loc (net.idx.ppo + i)) =
      (simRow semL8 (ops8 net order) net col).getD i V3.unknown := by
  have hi : net.sNodes[i]? = some n := mem_zipIdx_getElem? hn
  have hlt : i < net.sNodes.length := (List.getElem?_eq_some_iff.mp hi).1
  rw [simRow_getD _ _ _ _ _ _ hlt, captured_pin hi hl]
  exact simops_mem_value Gen.kindPrefixes net order false capsIn capsMin false hwf ho (fun h => by cases h) hr hpos semL8 default
    (fun h => by cases h) m0 (envOf net col) h0 n i l hn hl

/-! ## non-vacuity: a chain with markers at both ends and adjacent markers, lower-case `dff`, a latch -/
def exC : Circ := ⟨["a", "si", "z", "so"], [("f0", "DFF"), ("g", "AND2"), ("f1", "dff"), ("l0", "LATCH"), ("f2", "SDFFX1")]⟩
def exChain : Chain := ⟨"si", ["!", "f0", "!", "!", "f1", "f2", "!"], "so"⟩
def exCalls : List Call :=
  [⟨"load_unload", [("si", "10N".toList)]⟩,
   ⟨"allclock_launch", [("_pi", "0P".toList)]⟩,
   ⟨"allclock_capture", [("_pi", "1P".toList), ("_po", "LH".toList)]⟩,
   ⟨"load_unload", [("so", "LHX".toList), ("si", "011".toList)]⟩,
   ⟨"multiclock_capture", [("_pi", "N0".toList), ("_po", "XL".toList)]⟩,
   ⟨"load_unload", [("so", "HLL".toList)]⟩]
def exF : File := ⟨[("_pi", ["si", "a"]), ("_po", ["so", "z"])], [exChain], exCalls⟩
def exP : Pat := ⟨[("si", "10-".toList)], [("_pi", "0P".toList)], [("_pi", "1P".toList), ("_po", "LH".toList)], [("so", "LHX".toList)]⟩
def v (n : Nat) : V3 := V3.ofCode n
/-- rows: a si z so f0 f1 f2 l0 -/
def exTests : List (List V3) := [[4, 3, 2, 2, 2, 3, 0, 2].map v, [0, 2, 2, 2, 0, 0, 3, 2].map v]
def exResp : List (List V3) := [[2, 2, 3, 0, 1, 0, 3, 2].map v, [2, 2, 0, 1, 3, 3, 0, 2].map v]
def exLoc : List (List V3) := [[0, 5, 2, 2, 1, 3, 5, 1].map v, [1, 2, 2, 2, 0, 0, 3, 1].map v]
def exNxt : List (List V3) := [[2, 2, 0, 3, 3, 3, 3, 0].map v, [2, 2, 0, 3, 0, 0, 0, 0].map v]

example : exC.sNodes = ["a", "si", "z", "so", "f0", "f1", "f2", "l0"] := by decide +kernel
example : (extract exF)[0]? = some exP := by decide +kernel
example : tests .spec exC exF = .ok exTests := by decide +kernel
example : responses .spec exC exF = .ok exResp := by decide +kernel
/-- hypotheses of `load_pos` hold for cell `f1` (behind adjacent markers, before one more cell and a marker) -/
example : ∃ col, exTests[0]? = some col ∧ exC.sNodes[exC.cellRow "f1"]? = some "f1" ∧
    col[exC.cellRow "f1"]? = some (invLoad (odd (markers ["!", "f0", "!", "!"])) (interp '0')) :=
  load_pos exC exF exTests 0 exP exChain ["!", "f0", "!", "!"] ["f2", "!"] "f1" "10-".toList '0'
    (by decide +kernel) (by decide +kernel) (by decide +kernel) (by decide +kernel) (by decide +kernel) (by decide +kernel)
    (by decide +kernel) (by decide +kernel) (by decide +kernel) (by decide +kernel)
example : exC.cellRow "f1" = 5 ∧ invLoad (odd (markers ["!", "f0", "!", "!"])) (interp '0') = V3.one := by
  decide +kernel
example : ∃ col, exResp[0]? = some col ∧ exC.sNodes[exC.cellRow "f1"]? = some "f1" ∧
    col[exC.cellRow "f1"]? = some (xorInv (odd (markers ["f2", "!"])) (interp 'H')) :=
  unload_pos exC exF exResp 0 exP exChain ["!", "f0", "!", "!"] ["f2", "!"] "f1" "LHX".toList 'H'
    (by decide +kernel) (by decide +kernel) (by decide +kernel) (by decide +kernel) (by decide +kernel) (by decide +kernel)
    (by decide +kernel) (by decide +kernel) (by decide +kernel) (by decide +kernel)
example : xorInv (odd (markers ["f2", "!"])) (interp 'H') = V3.zero := by decide +kernel
example : ((mapsPure .spec exC exF).scanRows ++ (mapsPure .spec exC exF).pi ++ (mapsPure .spec exC exF).po).Nodup := by
  decide +kernel
example : testsLoc .spec exC exF exNxt = .ok exLoc := by decide +kernel
example : noLaunchPulse exP = false ∧ capturePulse exP = true := by decide +kernel
/-- hypotheses of `loc_transition` hold for cell `f1`, pattern 0 (launch and capture pulse: launch = simulated state) -/
example : ∃ col, exLoc[0]? = some col ∧ exC.sNodes[exC.cellRow "f1"]? = some "f1" ∧
    col[exC.cellRow "f1"]? = some (mvTransition (invLoad (odd (markers ["!", "f0", "!", "!"])) (interp '0'))
      (if noLaunchPulse exP then xorInv (odd (markers ["!", "f0", "!", "!"])) (interp '0')
       else ([2, 2, 0, 3, 3, 3, 3, 0].map v).getD (exC.cellRow "f1") V3.unknown)) :=
  loc_transition exC exF exNxt exLoc 0 exP ([2, 2, 0, 3, 3, 3, 3, 0].map v) exChain ["!", "f0", "!", "!"] ["f2", "!"] "f1"
    "10-".toList '0' (by decide +kernel) (by decide +kernel) (by decide +kernel) (by decide +kernel) (by decide +kernel) (by decide +kernel)
    (by decide +kernel) (by decide +kernel) (by decide +kernel) (by decide +kernel) (by decide +kernel)
/-- hypotheses of `pi_po_map` / `loc_transition_input` hold for input `a` (second member of the shuffled group `_pi`) -/
example : ∃ col, exTests[0]? = some col ∧ exC.sNodes[exC.portRow "a"]? = some "a" ∧
    col[exC.portRow "a"]? = some (interp 'P') :=
  pi_po_map exC exF exTests 0 exP 1 "a" "1P".toList 'P' (by decide +kernel) (by decide +kernel) (by decide +kernel) (by decide +kernel)
    (by decide +kernel) (by decide +kernel) (by decide +kernel) (by decide +kernel)
example : ∃ col, exLoc[0]? = some col ∧ exC.sNodes[exC.portRow "si"]? = some "si" ∧
    col[exC.portRow "si"]? = some (mvTransition (interp '0')
      (if capturePulse exP then interp '1' else ([2, 2, 0, 3, 3, 3, 3, 0].map v).getD (exC.portRow "si") V3.unknown)) :=
  loc_transition_input exC exF exNxt exLoc 0 exP ([2, 2, 0, 3, 3, 3, 3, 0].map v) 0 "si" '0' '1'
    (by decide +kernel) (by decide +kernel) (by decide +kernel) (by decide +kernel) (by decide +kernel) (by decide +kernel)
    (by decide +kernel) (by decide +kernel) (fun _ => by decide +kernel)
example : mvTransition (interp '0') (interp '1') = rise := by decide +kernel

/-! ### non-vacuity of the end-to-end statements: ports `a`, `si`, `z`, `so`; `f0 = DFF(si)`, `f1 = dff(g)`, `g = AND2(a, f0.Q)`,
`so = f1.Q`, `z = f1.QN`; chain `si f0 ! f1 so`; load `01` (f1 = 0 inverted = 1, f0 = 1), launch `_pi` = `P0` (`si` pulses,
`a` = 0), capture `_pi` = `P1` -/
def e2eNet : Net :=
  { nodes := #[⟨"input", [], [some 0]⟩, ⟨"input", [], [some 1]⟩, ⟨"DFF", [some 1], [some 2]⟩,
               ⟨"dff", [some 3], [some 4, some 5]⟩, ⟨"AND2", [some 0, some 2], [some 3]⟩,
               ⟨"output", [some 5], []⟩, ⟨"output", [some 4], []⟩],
    lines := #[⟨0, 0, 4, 0⟩, ⟨1, 0, 2, 0⟩, ⟨2, 0, 4, 1⟩, ⟨4, 0, 3, 0⟩, ⟨3, 0, 6, 0⟩, ⟨3, 1, 5, 0⟩],
    io := [0, 1, 5, 6] }
def e2eNames : List String := ["a", "si", "f0", "f1", "g", "z", "so"]
def e2eOrder : List Nat := [0, 1, 2, 3, 4, 5, 6]
def e2eC : Circ := ⟨["a", "si", "z", "so"],
  [("a", "input"), ("si", "input"), ("f0", "DFF"), ("f1", "dff"), ("g", "AND2"), ("z", "output"), ("so", "output")]⟩
def e2eChain : Chain := ⟨"si", ["f0", "!", "f1"], "so"⟩
def e2eF : File := ⟨[("_pi", ["si", "a"]), ("_po", ["so", "z"])], [e2eChain],
  [⟨"load_unload", [("si", "01".toList)]⟩, ⟨"allclock_launch", [("_pi", "P0".toList)]⟩,
   ⟨"allclock_capture", [("_pi", "P1".toList), ("_po", "LH".toList)]⟩, ⟨"load_unload", [("so", "LH".toList)]⟩]⟩
def e2eP : Pat := ⟨[("si", "01".toList)], [("_pi", "P0".toList)], [("_pi", "P1".toList), ("_po", "LH".toList)], [("so", "LH".toList)]⟩
/-- rows: a si z so f0 f1 -/
def e2eNxt : List (List V3) := [[2, 2, 0, 3, 4, 0].map v]
def e2eLoc : List (List V3) := [[5, 0, 2, 2, 6, 6].map v]

theorem e2e_hyps : e2eNet.wfB = true ∧ orderOKB e2eNet e2eOrder = true ∧ forksOKB e2eNet e2eOrder = true ∧
    compatB e2eC e2eNet e2eNames = true := by decide +kernel
example : e2eC.sNodes = ["a", "si", "z", "so", "f0", "f1"] ∧ e2eNet.sNodes = [0, 1, 5, 6, 2, 3] := by decide +kernel
example : (extract e2eF)[0]? = some e2eP ∧ noLaunchPulse e2eP = false := by decide +kernel
/-- the simulation of the model: `f0` captures the pulse on `si`, `f1` captures `a AND f0 = 0`, `z = NOT f1 = 0`, `so = f1 = 1`,
    the undriven ports stay unassigned -/
theorem e2e_nxt : nxtOf e2eC e2eF e2eNet e2eOrder = e2eNxt := by decide +kernel
theorem e2e_loc : testsLoc .spec e2eC e2eF (nxtOf e2eC e2eF e2eNet e2eOrder) = .ok e2eLoc := by
  rw [e2e_nxt]; decide +kernel
/-- all hypotheses of `tests_loc_end_to_end` hold for cell `f1` (node 3, data line 3 = output of `g`), `σ` = the simulation
    result, which `loc_labelling_unique` shows consistent; the value is `mv_transition(1, 0)`: a falling transition -/
example : ∃ col, e2eLoc[0]? = some col ∧ e2eC.sNodes[e2eC.cellRow "f1"]? = some "f1" ∧ nameAt e2eNames 3 = "f1" ∧
    col[e2eC.cellRow "f1"]? = some (mvTransition (invLoad (odd (markers ["f0", "!"])) (interp '0'))
      (if noLaunchPulse e2eP then xorInv (odd (markers ["f0", "!"])) (interp '0')
       else valOf e2eNet e2eOrder (initCol (mapsPure .spec e2eC e2eF) e2eP) 3)) :=
  tests_loc_end_to_end e2eC e2eF e2eNet e2eNames e2eOrder e2eLoc 0 e2eP e2eChain ["f0", "!"] [] "f1" "01".toList '0' _ 3 3
    e2e_hyps.1 e2e_hyps.2.1 e2e_hyps.2.2.1 e2e_hyps.2.2.2 e2e_loc (by decide +kernel) (by decide +kernel)
    (by decide +kernel) (by decide +kernel) (by decide +kernel) (by decide +kernel) (by decide +kernel) (by decide +kernel)
    (by decide +kernel) (loc_labelling_unique e2eNet e2eOrder e2e_hyps.1 e2e_hyps.2.1 e2e_hyps.2.2.1 _).1 (by decide +kernel) (by decide +kernel)
example : mvTransition (invLoad (odd (markers ["f0", "!"])) (interp '0'))
    (valOf e2eNet e2eOrder (initCol (mapsPure .spec e2eC e2eF) e2eP) 3) = fall := by decide +kernel
/-- the assignment the simulator was given: `f1` = 1 (loaded 0 behind one marker), `a` = 0 (second member of `_pi`) -/
example : envOf e2eNet (initCol (mapsPure .spec e2eC e2eF) e2eP) (e2eNet.idx.ppi + e2eC.cellRow "f1") = V3.one ∧
    envOf e2eNet (initCol (mapsPure .spec e2eC e2eF) e2eP) (e2eNet.idx.ppi + e2eC.portRow "a") = V3.zero := by
  decide +kernel
/-- hypotheses of `tests_loc_end_to_end_input` for the input `a` (node 0, no driver, capture pulse present) -/
example : ∃ col, e2eLoc[0]? = some col ∧ e2eC.sNodes[e2eC.portRow "a"]? = some "a" ∧ nameAt e2eNames 0 = "a" ∧
    col[e2eC.portRow "a"]? = some (mvTransition (interp '0')
      (if capturePulse e2eP then interp '1' else
        match (e2eNet.node 0).inPin 0 with
        | some l => valOf e2eNet e2eOrder (initCol (mapsPure .spec e2eC e2eF) e2eP) l
        | none => V3.unassigned)) :=
  tests_loc_end_to_end_input e2eC e2eF e2eNet e2eNames e2eOrder e2eLoc 0 e2eP 1 "a" '0' '1' _ 0
    e2e_hyps.1 e2e_hyps.2.1 e2e_hyps.2.2.1 e2e_hyps.2.2.2 e2e_loc (by decide +kernel) (by decide +kernel)
    (by decide +kernel) (by decide +kernel) (by decide +kernel) (by decide +kernel) (fun _ => by decide +kernel)
    (loc_labelling_unique e2eNet e2eOrder e2e_hyps.1 e2e_hyps.2.1 e2e_hyps.2.2.1 _).1 (by decide +kernel) (by decide +kernel)

/-- hypotheses of `nxtOf_memory` on the example (capacity 1 everywhere): the initial memory holds the stimulus in the input
    slots (`a` at location 3, `si` at 4, `f0` at 5, `f1` at 6, the constant 0 at 0); the output slot of `f1` (position 5, node 3,
    data line 3) then holds entry 5 of the model's column, the plain 0 -/
def e2eM0 : Int → V3 := fun a => if a = 4 then ppulse else if a = 5 ∨ a = 6 then V3.one else V3.zero
theorem e2eM0_ok : ∀ x ∈ (simopsMap Gen.kindPrefixes e2eNet e2eOrder false (fun _ => 1) 1 false).tracked,
    (∀ o ∈ (simopsMap Gen.kindPrefixes e2eNet e2eOrder false (fun _ => 1) 1 false).ops, o.out ≠ x) →
      e2eM0 ((simopsMap Gen.kindPrefixes e2eNet e2eOrder false (fun _ => 1) 1 false).loc x) =
        envOf e2eNet (initCol (mapsPure .spec e2eC e2eF) e2eP) x := by decide +kernel
example : MapSound.memRun (simopsMap Gen.kindPrefixes e2eNet e2eOrder false (fun _ => 1) 1 false) (MapSound.rowRW V3)
      (fun o => semL8 o.lut) (simopsMap Gen.kindPrefixes e2eNet e2eOrder false (fun _ => 1) 1 false).ops e2eM0
      ((simopsMap Gen.kindPrefixes e2eNet e2eOrder false (fun _ => 1) 1 false).loc (e2eNet.idx.ppo + 5)) = V3.zero :=
  (nxtOf_memory e2eNet e2eOrder (fun _ => 1) 1 e2e_hyps.1 e2e_hyps.2.1 (by decide +kernel) (by decide) _ e2eM0 e2eM0_ok 3 5 3
    (by decide +kernel) (by decide +kernel)).trans (by decide +kernel)

/-- finding D12 as a model statement: chain `f0 ! f1 f2`, load `100`: the property asks for f0 = 0, the as-found
variant (first flag only) gives f0 = 1 -/
theorem legacy_inversion_differs :
    let c : Circ := ⟨["si", "so"], [("f0", "DFF"), ("f1", "DFF"), ("f2", "DFF")]⟩
    let f : File := ⟨[("_pi", ["si"]), ("_po", ["so"])], [⟨"si", ["f0", "!", "f1", "f2"], "so"⟩],
      [⟨"load_unload", [("si", "100".toList)]⟩, ⟨"x_capture", [("_pi", "0".toList), ("_po", "L".toList)]⟩, ⟨"load_unload", [("so", "LLL".toList)]⟩]⟩
    tests .spec c f = .ok [[0, 2, 0, 3, 0].map v] ∧ tests ⟨.sNodes, .first, .role⟩ c f = .ok [[0, 2, 3, 3, 0].map v] := by
  decide +kernel

/-- audit finding 2 / fix D36 as a model statement: bench-style circuit `INPUT(si) INPUT(a) OUTPUT(q1) OUTPUT(z)  q0 = DFF(si)
g = AND(a, q0)  q1 = DFF(g)  z = NOT(q1)`, `_po = q1 + z`, chain `si: q0 ! q1 :q1`, capture `_po = LH`, unload `LH`: the property (and
the repaired code) puts `L` on the row of PORT `q1` (row 2); the code as found (one dictionary, last position) never assigns the port
row and writes the `_po` character onto the flip-flop's row 5, where the unload character overwrites it -/
theorem name_clash_as_found :
    let c : Circ := ⟨["si", "a", "q1", "z"], [("si", "__fork__"), ("a", "__fork__"), ("q1", "__fork__"), ("z", "__fork__"), ("q0", "DFF"),
      ("q0", "__fork__"), ("g", "AND"), ("g", "__fork__"), ("q1", "DFF"), ("z", "NOT")]⟩
    let f : File := ⟨[("_pi", ["si", "a"]), ("_po", ["q1", "z"])], [⟨"si", ["q0", "!", "q1"], "q1"⟩],
      [⟨"load_unload", [("si", "01".toList)]⟩, ⟨"cap_capture", [("_pi", "00".toList), ("_po", "LH".toList)]⟩,
       ⟨"load_unload", [("q1", "LH".toList)]⟩]⟩
    c.sNodes = ["si", "a", "q1", "z", "q0", "q1"] ∧ c.portRow "q1" = 2 ∧ c.cellRow "q1" = 5 ∧
    responses .spec c f = .ok [[2, 2, 0, 3, 0, 0].map v] ∧
    responses ⟨.sNodes, .full, .last⟩ c f = .ok [[2, 2, 2, 3, 0, 0].map v] := by
  decide +kernel

/-- finding D11 as a model statement: a lower-case `dff` in the chain is a `KeyError` with the as-found interface,
and with a latch the as-found interface is shorter than `s_nodes` -/
theorem legacy_interface_differs :
    tests ⟨.upperDff, .full, .role⟩ exC exF = .error .key ∧ exC.upperDffIntf.length + 2 = exC.sNodes.length := by
  decide +kernel

/-! ## text level: the grammar of `stil.py` (Model/StilText.lean) -/
section text
open KV.StilText

/-- Print/parse round trip of the STIL text model: for every syntax tree `f` of the grammar (version, skipped blocks,
PatternBurst, UserKeywords, SignalGroups with `+` lists / annotation block / optional `;`, ScanStructures with all
ScanChain statements incl. `!` markers, Pattern blocks with labels, W, C, Macro, Ann and Call statements with
parameter lists) whose tokens are tokens of the grammar (`StilFile.valid`: quoted names without `"` inside, digits,
version over `[-0-9.]`, parameter values without `;` that do not start with a blank / line end / `/`, skipped regions
well nested with text runs that start at such a character and never follow one another) and that the transformer accepts (`StilFile.ok`, part of `valid`), reading the canonical text (every token
preceded by a blank, a value directly followed by its `;`, a text run of a skipped region directly by its brace) gives back exactly `f` — through the scanner with lark's
per-state terminal order (incl. the merged states after a quoted name and after a skipped region), the reader for the
grammar, and the raise conditions of transformer and `StilFile.__init__`. -/
theorem stil_text_roundtrip (f : StilFile) (h : f.valid = true) : parseStil (printStil f) = some f := parseStil_print f h

/-- the same at the grammar level alone (what lark's parse tree contains, no transformer) -/
theorem stil_text_roundtrip_tree (f : StilFile) (h : f.valid = true) : parseTree (printStilL f) = some f :=
  parseTree_print f h

private def t (s : String) : Txt := s.toList

/-- two chains with markers and hierarchical cell names, groups with and without annotation block / semicolon, nested
skipped regions with text, a pattern with label, W, C, Macro, Ann and three calls -/
def exText : StilFile :=
  { version := t "1.0", headIgn := some [IgnTok.nob (t "Design 2005; ")],
    blocks := [.skip .Header [.nob (t "Title \"x\"; History "), .opn, .nob (t "Ann "), .opn, .nob (t "* a *"), .cls, .cls],
      .skip .Signals [.nob (t "\"a0\" In; \"z0\" Out; ")],
      .groups [⟨t "\"_pi\"", t "\"a0\"", [t "\"clk\"", t "\"si0\""], none, true⟩, ⟨t "\"_si\"", t "\"si0\"", [], some [], false⟩,
               ⟨t "\"_po\"", t "\"z0\"", [t "\"so0\""], some [], true⟩, ⟨t "\"all\"", t "\"_pi\"", [t "\"_po\""], none, false⟩],
      .skip .Timing [],
      .chains [⟨t "\"c0\"", [.length (t "2"), .scanIn (t "\"si0\""), .scanOut (t "\"so0\""), .inv (t "1"),
                 .cells [.bang, .cell (t "\"top.f0.SI\""), .bang, .bang, .cell (t "\"f1\"")], .clock (t "\"clk\"")]⟩,
               ⟨t "\"c1\"", [.scanIn (t "\"si1\""), .cells [.cell (t "\"r_reg[3].SI\"")], .scanOut (t "\"so1\"")]⟩],
      .burst (t "\"_burst_\"") [], .skip .Patternexec [], .skip .Procedures [], .skip .Macrodefs [], .ukw (t "abc;"),
      .pattern (t "\"_pattern_\"") [.w (t "\"_default_WFT_\""), .label (t "\"precondition\""), .c [.nob (t "\"_pi\"=\\r4 0 ; ")], .macro_ (t "\"test_setup\""),
        .ann [.nob (t "* fast_sequential *")], .label (t "\"pattern 0\""), .call (t "\"load_unload\"") [(t "\"si0\"", t "01"), (t "\"si1\"", t "N")],
        .call (t "\"multiclock_capture\"") [(t "\"_pi\"", t "0P1"), (t "\"_po\"", t "LH")],
        .call (t "\"load_unload\"") [(t "\"so0\"", t "L\nH"), (t "\"so1\"", t "X")]]] }

example : exText.valid = true := by decide +kernel
example : parseStil (printStil exText) = some exText := stil_text_roundtrip exText (by decide +kernel)
/-- hand-over to the post-parse model: cell names lose `.SI` and their path, markers stay, ports frame the chain -/
example : (exText.toFile.map fun f => (f.chains, f.groups.map (·.1), f.calls.map (·.name)))
    = some ([⟨"si0", ["!", "f0", "!", "!", "f1"], "so0"⟩, ⟨"si1", ["r_reg[3]"], "so1"⟩], ["_pi", "_si", "_po", "all"],
            ["load_unload", "multiclock_capture", "load_unload"]) := by decide +kernel

/-- the reader on a text the printer does not produce: comments, a nested skipped region with text (the ignored terminal is
tried first, so text inside starts at its first solid character), a wrapped value,
`ScanInversion` before `ScanIn` (longest keyword first), no blank between tokens -/
example : parseStil ("STIL 1.0 { Design 2005; }\nHeader { Title \"x\"; History { Ann {* a *} } } // c\n" ++
      "ScanStructures{ScanChain\"1\"{ScanInversion 0;ScanIn\"i\";ScanCells\"a\"!;}}Pattern\"p\"{Call\"c\"{\"k\"= 0\n1 ;}}")
    = some ⟨t "1.0", some [.nob (t "Design 2005; ")],
        [.skip .Header [.nob (t "Title \"x\"; History "), .opn, .nob (t "Ann "), .opn, .nob (t "* a *"), .cls, .cls],
         .chains [⟨t "\"1\"", [.inv (t "0"), .scanIn (t "\"i\""), .cells [.cell (t "\"a\""), .bang]]⟩],
         .pattern (t "\"p\"") [.call (t "\"c\"") [(t "\"k\"", t "0\n1 ")]]]⟩ := by decide +kernel
/-- the grammar accepts a file without ScanStructures; `StilFile.__init__` raises on it -/
example : parseStil "STIL 1.0; Pattern \"p\" { }" = none ∧ (parseTree "STIL 1.0; Pattern \"p\" { }".toList).isSome = true := by
  decide +kernel
end text

/-! ## pattern assembly (`StilFile.__init__`, stil.py:28-56)
A call list of the shape `load_unload+, [x_launch,] y_capture, load_unload+, [..,] .., load_unload` (`Stil.callsOf bs fin`; a block `Blk` =
any number of `load_unload` calls that no capture follows (`pre`), its own `load_unload`, optional launch call, capture call with at
least one parameter). -/
section extract
open KV.Stil

/-- **pattern assembly**: the pattern list is `expectPats` — for every block list, closing call, chain list (scan port names) -/
theorem extract_blocks (groups : List (String × List String)) (chains : List Chain) (bs : List Blk) (fin : Dict)
    (hb : ∀ b ∈ bs, b.ok = true) :
    extract ⟨groups, chains, callsOf bs fin⟩ = expectPats (chains.map (·.si)) (chains.map (·.so)) bs fin :=
  Stil.extract_blocks groups chains bs fin hb

/-- one pattern per block: the closing `load_unload` opens no pattern, nothing is dropped or doubled -/
theorem extract_count (groups : List (String × List String)) (chains : List Chain) (bs : List Blk) (fin : Dict)
    (hb : ∀ b ∈ bs, b.ok = true) : (extract ⟨groups, chains, callsOf bs fin⟩).length = bs.length := by
  rw [extract_blocks groups chains bs fin hb, expectPats_length]

/-- **pattern `k`** = the scan-in strings of block `k`'s `load_unload` (scan-in ports only, in chain order), the cleaned launch
    parameters of block `k` (EMPTY when the block has no launch call — not the previous block's), the cleaned capture parameters of
    block `k`, and the scan-out strings of the NEXT `load_unload` call in the list: the first one of block `k + 1` (a discarded
    `load_unload` in front of that block if there is one — its load is lost, its unload is not), for the last block the closing call -/
theorem extract_pattern (groups : List (String × List String)) (chains : List Chain) (bs : List Blk) (fin : Dict)
    (hb : ∀ b ∈ bs, b.ok = true) (k : Nat) (hk : k < bs.length) :
    (extract ⟨groups, chains, callsOf bs fin⟩)[k]? =
      some ⟨pick (chains.map (·.si)) bs[k].lu, bs[k].launch, cleanDict bs[k].ca,
            pick (chains.map (·.so)) (if h : k + 1 < bs.length then bs[k + 1].unloadSrc else fin)⟩ := by
  rw [extract_blocks groups chains bs fin hb, List.getElem?_eq_getElem (by rw [expectPats_length]; exact hk),
    expectPats_get _ _ bs fin k hk]

/-- non-vacuity: two blocks (the second without launch call and behind a discarded `load_unload`), one chain; `N` → `-`, line break removed, the unload of pattern 0
    comes from the discarded `load_unload`, the load of pattern 1 from the one after it, the launch of pattern 1 is empty -/
example :
    let bs : List Blk := [⟨[], [("si0", "01".toList), ("so0", "LL".toList)], some ("ck_launch", [("_pi", "0P".toList)]), "ck_capture", [("_po", "LH".toList)]⟩,
                          ⟨[[("si0", "00".toList), ("so0", "H\nL".toList)]], [("si0", "1N".toList), ("so0", "LL".toList)], none, "x_capture", [("_pi", "11".toList)]⟩]
    (∀ b ∈ bs, b.ok = true) ∧
    extract ⟨[], [⟨"si0", ["a", "b"], "so0"⟩], callsOf bs [("so0", "XX".toList)]⟩ =
      [⟨[("si0", "01".toList)], [("_pi", "0P".toList)], [("_po", "LH".toList)], [("so0", "HL".toList)]⟩,
       ⟨[("si0", "1-".toList)], [], [("_pi", "11".toList)], [("so0", "XX".toList)]⟩] := by decide +kernel
end extract

/-- the auditor's witness (audit 2, A-C18-1): two chains sharing the scan-in port `si` — `hnd` holds, `portsOK` does not: the
positional theorems do not apply (the real `tests` leaves `f0` untouched, the list-walking model writes both chains) -/
theorem shared_scan_port_outside :
    let c : Circ := ⟨["si", "a", "so1", "so2"], [("si","__fork__"),("a","__fork__"),("so1","__fork__"),("so2","__fork__"),
      ("f0","DFF"),("f1","DFF"),("so1","BUF"),("so2","BUF")]⟩
    let fl : File := ⟨[("_pi", ["si","a"]), ("_po", ["so1","so2"])], [⟨"si", ["f0"], "so1"⟩, ⟨"si", ["f1"], "so2"⟩],
      [⟨"load_unload", [("si", "1".toList)]⟩, ⟨"x_capture", [("_pi", "00".toList), ("_po", "LL".toList)]⟩,
       ⟨"load_unload", [("so1","L".toList),("so2","L".toList)]⟩]⟩
    ((mapsPure .spec c fl).scanRows ++ (mapsPure .spec c fl).pi).Nodup ∧ fl.portsOK = false := by decide +kernel

end KV.C18
