import KyupyVerif.Model.Val
import KyupyVerif.Model.Comp
import KyupyVerif.Model.Wave
import KyupyVerif.Model.Heap
import KyupyVerif.Model.Kahn
import KyupyVerif.Model.Net
import KyupyVerif.Model.SimOps
import KyupyVerif.Model.WaveCirc
import KyupyVerif.Model.Capture
import KyupyVerif.Model.MapCert
import KyupyVerif.Model.LevelMem
import KyupyVerif.Proofs.Solve
import KyupyVerif.Proofs.GenOpsWO
import KyupyVerif.Proofs.StripLink
import KyupyVerif.Proofs.MemMapSpec
import KyupyVerif.Proofs.LinesDriven
import KyupyVerif.Gen.Tables
import KyupyVerif.Drv.Registry
/-! Line protocol driver: one request per line on stdin, one answer per line on stdout.
Only core-Lean model files are imported, so this links as a stand-alone executable. -/
open KV

def parseNats (s : String) : List Nat := (s.splitOn ",").filter (· ≠ "") |>.map String.toNat!

def parseMapIn (net : Net) (strip capsMin rest : String) : Option MapIn :=
  match rest.splitOn "|" with
  | [opsS, startsS, locsS, capsS, clenS] =>
    let ops := (opsS.splitOn "/").filter (· ≠ "") |>.map fun t =>
      match (t.splitOn ",").map String.toNat! with
      | [l, o, a, b, c, d] => OpRow.mk l o a b c d
      | _ => default
    some { net := net, strip := strip == "1", ops := ops, starts := parseNats startsS,
           locs := ((locsS.splitOn ",").filter (· ≠ "") |>.map String.toInt!).toArray,
           caps := (parseNats capsS).toArray, cLen := clenS.toNat!, capsMin := capsMin.toNat! }
  | _ => none

/-! ### spec tables (specification answers for the Python oracles) -/
def packCodes (l : List Nat) : Nat :=
  (l.zipIdx.map fun (v, i) => v <<< (3 * i)).foldl (· + ·) 0

def tuples (k : Nat) : List (List V3) :=
  -- operand 0 least significant
  match k with
  | 0 => [[]]
  | k+1 => (tuples k).flatMap fun t => [] ++ (V3.all.map fun v => t ++ [v])

def tuplesLS (k : Nat) : List (List V3) :=
  (List.range (8 ^ k)).map fun i => (List.range k).map fun j => V3.ofCode ((i / 8 ^ j) % 8)

def specTab (op : String) (k : Nat) : String :=
  let f : List V3 → V3 := match op with
    | "not" => fun xs => specNot (xs.headD default)
    | "and" => specAnd | "or" => specOr | "xor" => specXor
    | _ => fun _ => default
  toString (packCodes ((tuplesLS k).map fun t => (f t).code))

def compTab (name : String) : String :=
  match comp8 name with
  | none => "none"
  | some f => toString (packCodes ((tuplesLS 4).map fun t =>
      (f (t.getD 0 default) (t.getD 1 default) (t.getD 2 default) (t.getD 3 default)).code))

/-! ### wave evaluator -/
namespace WaveD
open KV.Wave
def parseT (s : String) : T :=
  if s == "m" then .tmin else if s == "M" then .tmax else if s == "O" then .tovl else .fin (s.toInt?.getD 0)
def showT : T → String
  | .tmin => "m" | .tmax => "M" | .tovl => "O" | .fin t => toString t
def parseList (s : String) : List T := (s.splitOn ",").filter (· ≠ "") |>.map parseT
-- wave lut zcap w0 t0 w1 t1 w2 t2 w3 t3 d(16 ints: i p q order)
def handle (f : Array String) : String :=
  if f.size < 26 then "bad" else
  let lut := f[0]!.toNat!; let zcap := f[1]!.toNat!
  let ws : Fin 4 → List T := fun i => parseList (if f[2 + 2*i.val]! == "-" then "" else f[2 + 2*i.val]!)
  let terms : Fin 4 → T := fun i => parseT f[3 + 2*i.val]!
  let D : Delays := fun i p q => (f[10 + 4*i + (if p then 2 else 0) + (if q then 1 else 0)]!).toInt!
  let (ents, term, nr, nf) := waveEval lut D ws terms zcap
  s!"{",".intercalate (ents.map showT)} {showT term} {nr} {nf}"
end WaveD

/-! ### whole WaveSim propagation over an op program -/
namespace WaveSimD
open KV.Wave KV.Sig
def parseWv (s : String) : Wv :=
  match s.splitOn ":" with
  | [e, t] => ⟨WaveD.parseList (if e == "-" then "" else e), WaveD.parseT t⟩
  | _ => Wv.empty
def showWv (w : Wv) : String :=
  let e := ",".intercalate (w.ents.map WaveD.showT)
  s!"{if e == "" then "-" else e}:{WaveD.showT w.term}"
def parseOp (s : String) : Op :=
  match (s.splitOn ",").map String.toNat! with
  | [l, o, a, b, c, d] => ⟨l, o, [a, b, c, d]⟩
  | [l, o, a, b, c, d, da, db, dc, dd] => ⟨l, o, [a, b, c, d, da, db, dc, dd]⟩
  | _ => ⟨0, 0, []⟩
/-- wavesim <ops> ; <delays per index: d00,d01,d10,d11> ; <caps csv> ; <stim idx=wv ...> -/
def handle (rest : String) : String :=
  match (rest.splitOn ";").map (·.trimAscii.toString) with
  | [opsS, delS, capS, stimS] =>
    let ops := (opsS.splitOn " ").filter (· ≠ "") |>.map parseOp
    let dels := ((delS.splitOn " ").filter (· ≠ "") |>.map fun d => (d.splitOn ",").map String.toInt!).toArray
    let caps := (parseNats capS).toArray
    let cfg : WCfg := { delay := fun l p q => ((dels.getD l []).getD ((if p then 2 else 0) + (if q then 1 else 0)) 0),
                        cap := fun i => caps.getD i 0 }
    let stim := (stimS.splitOn " ").filter (· ≠ "") |>.map fun t =>
      match t.splitOn "=" with
      | [i, w] => (i.toNat!, parseWv w)
      | _ => (0, Wv.empty)
    let n := caps.size
    let env0 : Array Wv := (List.range n).map (fun i => match stim.find? (·.1 == i) with | some p => p.2 | none => Wv.empty) |>.toArray
    -- array-based execution (`execArrG`, proved equal to `execG` = `simWave`), recording counts per op
    let (envF, cnts) := ops.foldl (fun (acc : Array Wv × List (Nat × Nat)) op =>
        let xs := op.ins.map fun i => acc.1.getD i Wv.empty
        (execArrStep Wv.empty (waveSem cfg) acc.1 op, acc.2 ++ [waveCounts cfg op xs])) (env0, [])
    let written := ops.map (·.out) ++ stim.map (·.1)
    let sigs := (List.range n).map fun i => if written.contains i then showWv (envF.getD i Wv.empty) else "."
    s!"{" ".intercalate sigs} ; {" ".intercalate (cnts.map fun c => s!"{c.1},{c.2}")}"
  | _ => "bad"
/-- capture <wv> <time|M> : init eat lst final val ovl -/
def capture (w : String) (t : String) : String :=
  let r := KV.Wave.captureWv (parseWv w) (WaveD.parseT t)
  s!"{if r.init then 1 else 0} {WaveD.showT r.eat} {WaveD.showT r.lst} {if r.final then 1 else 0} {if r.val then 1 else 0} {if r.ovl then 1 else 0}"
end WaveSimD

/-! ### heap -/
namespace HeapD
open KV.Heap
def dump (h : Heap) : String :=
  let rec go (start : Nat) : List Chunk → List String
    | [] => []
    | c :: r => s!"{start}:{c.size}:{if c.free then "f" else "u"}" :: go (start + c.size) r
  s!"{" ".intercalate (go 0 h.cs)} | cur={total h.cs} max={h.maxSz}"
end HeapD

/-! ### Kahn order -/
namespace KahnD
open KV.Kahn
-- kahn n ; seq bits ; succs (| separated lists) ; preds (| separated lists)
def handle (rest : String) : String :=
  match rest.splitOn ";" with
  | [n, sq, su, pr] =>
    let n := n.trimAscii.toString.toNat!
    let seqA := (parseNats sq.trimAscii.toString).toArray
    let suA := ((su.trimAscii.toString.splitOn "|").map parseNats).toArray
    let prA := ((pr.trimAscii.toString.splitOn "|").map parseNats).toArray
    let g : G := { n := n, succs := fun v => suA.getD v [], preds := fun v => prA.getD v [], seq := fun v => seqA.getD v 0 == 1 }
    ",".intercalate ((kahn g).map toString)
  | _ => "bad"
end KahnD

/-! ### netlists -/
namespace NetD
def hexVal (c : Char) : Nat :=
  if c.isDigit then c.toNat - '0'.toNat else if 'a' ≤ c ∧ c ≤ 'f' then c.toNat - 'a'.toNat + 10
  else if 'A' ≤ c ∧ c ≤ 'F' then c.toNat - 'A'.toNat + 10 else 0
def pctDecode : List Char → List Char
  | '%' :: a :: b :: r => Char.ofNat (16 * hexVal a + hexVal b) :: pctDecode r
  | '%' :: _ => []
  | c :: r => c :: pctDecode r
  | [] => []
def unpct (s : String) : String := String.ofList (pctDecode s.toList)
def parsePins (s : String) : List (Option Nat) :=
  (s.splitOn ",").filter (· ≠ "") |>.map fun t => if t == "-" then none else some t.toNat!
def parseNode (s : String) : NodeD :=
  match s.splitOn ":" with
  | [k, i, o] => { kind := unpct k, ins := parsePins i, outs := parsePins o }
  | _ => default
def parseLine (s : String) : LineD :=
  match (s.splitOn ".").map String.toNat! with
  | [a, b, c, d] => ⟨a, b, c, d⟩
  | _ => default
def parseNet (s : String) : Net :=
  match (s.splitOn ";").map (·.trimAscii.toString) with
  | [ns, ls, io] =>
    { nodes := ((ns.splitOn "|").filter (· ≠ "") |>.map parseNode).toArray,
      lines := ((ls.splitOn "|").filter (· ≠ "") |>.map parseLine).toArray,
      io := parseNats io }
  | _ => default
def showOps (ops : List OpRow) : String :=
  " ".intercalate (ops.map fun o => s!"{o.lut},{o.out},{o.i0},{o.i1},{o.i2},{o.i3}")
def showInts (l : List Int) : String := ",".intercalate (l.map toString)
def showNats (l : List Nat) : String := ",".intercalate (l.map toString)
def bitsOf (s : String) : Nat → Bool := fun i => (s.toList.getD i '0') == '1'
end NetD

structure DState where
  heap : KV.Heap.Heap := { cs := [], maxSz := 0 }
  net : Net := default

def step (st : DState) (line : String) : DState × String :=
  let l := line.trimAscii.toString
  let toks := l.splitOn " "
  match toks with
  | ["spectab", op, k] => (st, specTab op k.toNat!)
  | ["comptab", name] => (st, compTab name)
  | "wave" :: rest => (st, WaveD.handle rest.toArray)
  | ["heap", "new"] => ({ st with heap := { cs := [], maxSz := 0 } }, "ok")
  | ["heap", "alloc", n] =>
      let (loc, h') := st.heap.alloc n.toNat!
      ({ st with heap := h' }, s!"{loc} ; {HeapD.dump h'}")
  | ["heap", "free", n] =>
      match st.heap.free n.toNat! with
      | some h' => ({ st with heap := h' }, s!"ok ; {HeapD.dump h'}")
      | none => (st, "err")
  | "kahn" :: _ => (st, KahnD.handle (l.drop 5).toString)
  | "wavesim" :: _ => (st, WaveSimD.handle (l.drop 8).toString)
  | ["capture", w, t] => (st, WaveSimD.capture w t)
  | "net" :: _ => ({ st with net := NetD.parseNet (l.drop 4).toString }, "ok")
  | ["snodes"] => (st, NetD.showNats st.net.sNodes)
  | ["genops", strip, order] =>
      (st, NetD.showOps (genOps Gen.kindPrefixes st.net (parseNats order) (strip == "1")))
  | ["simops", strip, reuse, capsMin, capsSpec, order] =>
      let net := st.net
      let ops := genOps Gen.kindPrefixes net (parseNats order) (strip == "1")
      let stems := stemsOf net (strip == "1")
      let lev := levelise net.idx.len stems ops
      let capsL := (parseNats capsSpec).toArray
      let capsIn : Nat → Nat := fun i => if capsL.size == 1 then capsL[0]! else capsL.getD i 0
      let m := memMap net ops stems lev capsIn capsMin.toNat! (reuse == "1")
      (st, s!"{NetD.showOps ops} ; {NetD.showNats lev.starts.reverse} ; {NetD.showInts m.locs.toList} ; {NetD.showNats m.caps.toList} ; {m.heap.maxSz}")
  | ["evalmv", m, codes] =>
      let net := st.net
      let cs := codes.toList.map fun ch => ch.toNat - '0'.toNat
      let res : List String :=
        if m == "8" then
          let a : Nat → V3 := fun i => V3.ofCode (cs.getD i 0)
          let ok := consistentB net V3.zero specNot prim8 a (evalAll net V3.zero specNot prim8 a)
          (evalCapturesG net V3.zero specNot prim8 a).map (fun o => match o with
            | some v => toString v.code | none => "-") ++ [if ok then "" else "!"]
        else
          let a : Nat → V2 := fun i => V2.ofV3 (V3.ofCode (cs.getD i 0))
          let z := V2.ofV3 V3.zero
          let ok := consistentB net z spec4Not prim4 a (evalAll net z spec4Not prim4 a)
          (evalCapturesG net z spec4Not prim4 a).map (fun o => match o with
            | some v => toString v.code | none => "-") ++ [if ok then "" else "!"]
      (st, "".intercalate res)
  | ["mapok", strip, capsMin, rest] =>
      -- rest = ops|starts|locs|caps|clen with , inside and / between ops
      match parseMapIn st.net strip capsMin rest with
      | some p => (st, match p.checkFast with | none => "ok" | some e => "FAIL " ++ e)
      | none => (st, "bad")
  | ["opsindep", strip, capsMin, rest] =>
      -- footprint conditions of C07.level_threads_any_order / C06.level_any_thread_order_wave on the REAL tables
      -- (theorem C07.level_conditions_of_certificate: implied by `mapok`), `oneLevelB` for every (level_starts[i], level_stops[i]),
      -- number of levels with >= 2 scratch writers (where the former condition `opsIndepB` fails)
      match parseMapIn st.net strip capsMin rest with
      | some p =>
          let stops := p.starts.drop 1 ++ [p.ops.length]
          let lev := (p.starts.zip stops).all fun (a, b) => p.oneLevelB a b && decide (b ≤ p.ops.length)
          (st, s!"indep={p.levelsIndepB} onelevel={lev} capsmin={decide (2 ≤ p.capsMin)} clash={p.scratchClashLevels}")
      | none => (st, "bad")
  | ["schedok", strip, capsMin, rest, sched] =>
      match parseMapIn st.net strip capsMin rest with
      | some p => (st, if p.schedOKB (parseNats sched) then "ok" else "FAIL")
      | none => (st, "bad")
  | ["netcert", order] =>
      (st, s!"wf={st.net.wfB} order={orderOKB st.net (parseNats order)}")
  | ["simopscert", strip, order] =>
      -- hypotheses of KV.C08.simops_map_accepted on the loaded netlist and the given (real) topological order
      let o := parseNats order
      (st, s!"wf={st.net.wfB} order={orderOKB st.net o} forks={strip != "1" || forksOKB st.net o} reads={readsDrivenB Gen.kindPrefixes st.net o}")
  | ["netarity"] =>
      -- domain predicate `Net.arityOKB` (audit finding 1 / known finding D33) on the loaded netlist
      (st, s!"arity={st.net.arityOKB}")
  | ["netspeccert", order] =>
      -- hypotheses of KV.C02.sim8_netlist_all_circuits / oracle_labelling_is_simulation on the loaded netlist and order
      let o := parseNats order
      (st, s!"forks={forksOKB st.net o} lines={linesDrivenB Gen.kindPrefixes st.net o}")
  | ["forkcert", order] =>
      -- hypotheses of KV.C06.genOps_strip_link on the loaded netlist, and the branch ↦ stem list of the model
      let pairs := (stemList st.net).map fun (b, s) => s!"{b}:{s}"
      (st, s!"forks={forksOKB st.net (parseNats order)} stems={",".intercalate pairs}")
  | ["wellordered", opsS] =>
      let ops := (opsS.splitOn "/").filter (· ≠ "") |>.map WaveSimD.parseOp
      (st, if KV.Sig.wellOrderedB ops then "ok" else "FAIL")
  | ["levelsok", startsS, opsS] =>
      let ops := (opsS.splitOn "/").filter (· ≠ "") |>.map WaveSimD.parseOp
      let lvls := KV.Sig.splitLevels ops (parseNats startsS)
      let bad := (lvls.zipIdx.filter fun (lv, _) => !(KV.Sig.levelIndepB lv)).map (·.2)
      (st, if bad.isEmpty then "ok" else s!"FAIL levels {bad}")
  | ["eval2", bits, k] =>
      let net := st.net
      let a := iterState net k.toNat! (NetD.bitsOf bits)
      let n := net.sNodes.length
      -- acceptance flag over ALL iterates 0..k (audit-2 finding 7): hypothesis `iterAccepted` of C01.cycle_iter_iterState
      let ok := iterAccepted net k.toNat! (NetD.bitsOf bits)
      let cap := (evalCaptures net a).map fun o => match o with
        | some true => "1" | some false => "0" | none => "-"
      let nxt := (List.range n).map fun j => if a j then "1" else "0"
      (st, s!"{"".intercalate cap}{if ok then "" else "!"} {"".intercalate nxt}")
  | cmd :: args => (st, (KV.Drv.tryExt cmd args).getD "bad-op")
  | [] => (st, "bad-op")

partial def loop (h : IO.FS.Stream) (out : IO.FS.Stream) (st : DState) : IO Unit := do
  let line ← h.getLine
  if line.isEmpty then return ()
  let (st', ans) := step st line
  out.putStrLn ans
  out.flush
  loop h out st'

def main : IO Unit := do
  let out ← IO.getStdout
  loop (← IO.getStdin) out {}
  out.flush
