import KyupyVerif.Model.Val
import KyupyVerif.Model.Comp
import KyupyVerif.Model.Wave
import KyupyVerif.Model.Heap
import KyupyVerif.Model.Kahn
/-! Line protocol driver: one request per line on stdin, one answer per line on stdout.
Only core-Lean model files are imported, so this links as a stand-alone executable. -/
open KV

def parseNats (s : String) : List Nat := (s.splitOn ",").filter (· ≠ "") |>.map String.toNat!

/-! ### spec tables (specification answers for the Python oracles) -/
def packCodes (l : List Nat) : Nat :=
  (l.zipIdx.map fun (v, i) => v <<< (3 * i)).foldl (· + ·) 0

def tuples (k : Nat) : List (List V3) :=
  -- operand 0 least significant
  match k with
  | 0 => [[]]
  | k+1 => (tuples k).flatMap fun t => [] ++ (V3.all.map fun v => t ++ [v])

def tuplesLS (k : Nat) : List (List V3) :=
  (List.range (8 ^ k)).map fun i => (List.range k).map fun j => V3.ofCode ((i / 8 ^ j) % 8)

def specTab (op : String) (k : Nat) : String :=
  let f : List V3 → V3 := match op with
    | "not" => fun xs => specNot (xs.headD default)
    | "and" => specAnd | "or" => specOr | "xor" => specXor
    | _ => fun _ => default
  toString (packCodes ((tuplesLS k).map fun t => (f t).code))

def compTab (name : String) : String :=
  match comp8 name with
  | none => "none"
  | some f => toString (packCodes ((tuplesLS 4).map fun t =>
      (f (t.getD 0 default) (t.getD 1 default) (t.getD 2 default) (t.getD 3 default)).code))

/-! ### wave evaluator -/
namespace WaveD
open KV.Wave
def parseT (s : String) : T :=
  if s == "m" then .tmin else if s == "M" then .tmax else if s == "O" then .tovl else .fin (s.toInt?.getD 0)
def showT : T → String
  | .tmin => "m" | .tmax => "M" | .tovl => "O" | .fin t => toString t
def parseList (s : String) : List T := (s.splitOn ",").filter (· ≠ "") |>.map parseT
-- wave lut zcap w0 t0 w1 t1 w2 t2 w3 t3 d(16 ints: i p q order)
def handle (f : Array String) : String :=
  if f.size < 26 then "bad" else
  let lut := f[0]!.toNat!; let zcap := f[1]!.toNat!
  let ws : Fin 4 → List T := fun i => parseList (if f[2 + 2*i.val]! == "-" then "" else f[2 + 2*i.val]!)
  let terms : Fin 4 → T := fun i => parseT f[3 + 2*i.val]!
  let D : Delays := fun i p q => (f[10 + 4*i + (if p then 2 else 0) + (if q then 1 else 0)]!).toInt!
  let (ents, term, nr, nf) := waveEval lut D ws terms zcap
  s!"{",".intercalate (ents.map showT)} {showT term} {nr} {nf}"
end WaveD

/-! ### heap -/
namespace HeapD
open KV.Heap
def dump (h : Heap) : String :=
  let rec go (start : Nat) : List Chunk → List String
    | [] => []
    | c :: r => s!"{start}:{c.size}:{if c.free then "f" else "u"}" :: go (start + c.size) r
  s!"{" ".intercalate (go 0 h.cs)} | cur={total h.cs} max={h.maxSz}"
end HeapD

/-! ### Kahn order -/
namespace KahnD
open KV.Kahn
-- kahn n ; seq bits ; succs (| separated lists) ; preds (| separated lists)
def handle (rest : String) : String :=
  match rest.splitOn ";" with
  | [n, sq, su, pr] =>
    let n := n.trimAscii.toString.toNat!
    let seqA := (parseNats sq.trimAscii.toString).toArray
    let suA := ((su.trimAscii.toString.splitOn "|").map parseNats).toArray
    let prA := ((pr.trimAscii.toString.splitOn "|").map parseNats).toArray
    let g : G := { n := n, succs := fun v => suA.getD v [], preds := fun v => prA.getD v [], seq := fun v => seqA.getD v 0 == 1 }
    ",".intercalate ((kahn g).map toString)
  | _ => "bad"
end KahnD

structure DState where
  heap : KV.Heap.Heap := { cs := [], maxSz := 0 }

def step (st : DState) (line : String) : DState × String :=
  let l := line.trimAscii.toString
  let toks := l.splitOn " "
  match toks with
  | ["spectab", op, k] => (st, specTab op k.toNat!)
  | ["comptab", name] => (st, compTab name)
  | "wave" :: rest => (st, WaveD.handle rest.toArray)
  | ["heap", "new"] => ({ st with heap := { cs := [], maxSz := 0 } }, "ok")
  | ["heap", "alloc", n] =>
      let (loc, h') := st.heap.alloc n.toNat!
      ({ st with heap := h' }, s!"{loc} ; {HeapD.dump h'}")
  | ["heap", "free", n] =>
      match st.heap.free n.toNat! with
      | some h' => ({ st with heap := h' }, s!"ok ; {HeapD.dump h'}")
      | none => (st, "err")
  | "kahn" :: _ => (st, KahnD.handle (l.drop 5).toString)
  | _ => (st, "bad-op")

partial def loop (h : IO.FS.Stream) (out : IO.FS.Stream) (st : DState) : IO Unit := do
  let line ← h.getLine
  if line.isEmpty then return ()
  let (st', ans) := step st line
  out.putStrLn ans
  loop h out st'

def main : IO Unit := do
  let out ← IO.getStdout
  loop (← IO.getStdin) out {}
  out.flush
